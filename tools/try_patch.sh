#!/bin/bash
# Apply a patch to the scratch worktree /var/tmp/repo-head (clean HEAD of /repo), run the given checks on it, undo.
# usage: tools/try_patch.sh <patch.diff> C02 [C07 ...]
P=$(realpath "$1"); shift
WT=${TP_WT:-/var/tmp/repo-head}
[ -d "$WT" ] || git -C /repo worktree add --detach "$WT" HEAD >/dev/null 2>&1   # remove it afterwards: git -C /repo worktree remove --force $WT
git -C $WT checkout -q -- . ; git -C $WT clean -fdq core interop cli bench 2>/dev/null
git -C $WT checkout -q --detach $(git -C /repo rev-parse HEAD)
git -C $WT apply "$P" || { echo "patch does not apply"; exit 2; }
for p in "$@"; do
  VERIF_REPO=$WT VERIF_EVIDENCE_DIR=/tmp/ev-seed /verif/verif check $p 2>&1 | grep -v "^WARNING\|^KNOWN-FINDING" | grep -A3 "^VIOLATION\|^ERROR\|^C[0-9][0-9] " | cut -c1-420
done
git -C $WT checkout -q -- . ; git -C $WT clean -fdq core interop cli bench 2>/dev/null
