"""C17 — one connection's failure stays local; lost outbound connections come back.

Decides: who may shut a socket down, that refusing a peer is not reported as the binder's own failure,
the shape of the reconnect back-off arithmetic, that the reconnect verdict is used, and how consumers
of the shared event bus treat RecvError::Lagged.  Not: traffic resumption, timing of retries."""
import re

from vlib import mir
from vlib.mir import strip_generics
from vlib.util import where, short, is_plumbing, norm_cmp, interval

ALLOWED_SHUTDOWN_CALLERS = {
    "socket::core::command_loop::run_command_loop": "the socket's own loop (fatal handler error, mailbox closed, bus closed)",
    "socket::core::command_processor::process_socket_command": "UserClose / Stop commands",
    "socket::core::event_processor::process_system_event": "ContextTerminating and the socket's own SocketClosing event",
}


def r1_who_may_shutdown(chk):
    r = chk.rule("R1", "who may shut the socket down", "T1 who-may-call",
                 "initiate_core_shutdown is called only from the socket's own command loop / command and event processors; the event processor calls it only for ContextTerminating and for SocketClosing of its OWN id; connection-level code never reaches it")
    for cfg, prog in chk.configs():
        for c in prog.calls_to(r"shutdown::initiate_core_shutdown$"):
            body = c.body
            root = strip_generics(body.root)
            key = "%s|calls initiate_core_shutdown#%d" % (short(root), len([i for i in r.instances if i["config"] == cfg and short(root) in i["key"]]))
            if root not in ALLOWED_SHUTDOWN_CALLERS:
                r.bad(cfg, key, where(body, c.blk), "`%s` can shut the whole socket down: a connection- or peer-level event must only tear down that connection" % short(root))
                continue
            if root.endswith("process_system_event"):
                gs = body.guards(c.blk)
                ev = [g for g in gs if g.atom[0] == "discr" and g.atom[2].endswith("SystemEvent")]
                adt = prog.facts.adts.get("runtime::system_events::SystemEvent")
                names = [v["name"] for v in adt["variants"]] if adt else []
                vname = None
                for g in ev:
                    if isinstance(g.label, int) and g.label < len(names):
                        vname = names[g.label]
                if vname == "ContextTerminating":
                    r.ok(cfg, key, where(body, c.blk), "on ContextTerminating")
                elif vname == "SocketClosing":
                    own = False
                    for g in gs:
                        if g.atom[0] == "cmp" and g.truth is True and g.atom[1] == "Eq":
                            pv = body.provenance(g.atom[2]) + " " + body.provenance(g.atom[3])
                            if "socket_id" in pv and "handle" in pv:
                                own = True
                    (r.ok if own else r.bad)(cfg, key, where(body, c.blk), *(["on SocketClosing of its own id"] if own else ["shuts down on SocketClosing without comparing the id with its own handle: closing one socket closes the others"]))
                else:
                    r.bad(cfg, key, where(body, c.blk), "the system-event handler shuts the socket down on event `%s`, which is caused by another actor / peer" % vname)
            else:
                r.ok(cfg, key, where(body, c.blk), ALLOWED_SHUTDOWN_CALLERS[root])
        # negative: session / transport / pattern code cannot reach it through the call graph
        tgt = "socket::core::shutdown::initiate_core_shutdown"
        back = prog.reach_back([tgt])
        offenders = sorted(b for b in back if re.search(r"^(sessionx::|transport::|io_uring_backend::|protocol::|security::)", b))
        if offenders:
            r.bad(cfg, "callgraph|connection-level code reaches initiate_core_shutdown", offenders[0], "connection-level code reaches initiate_core_shutdown through the call graph: %s" % offenders[:3])
        else:
            r.ok(cfg, "callgraph|connection-level code cannot reach initiate_core_shutdown", tgt, "%d bodies can reach it, none in sessionx/transport/io_uring/protocol/security" % len(back))
        r.require(cfg, 9, "initiate_core_shutdown call sites")


def r2_refusal_is_not_failure(chk):
    r = chk.rule("R2", "refusing a peer is not failing myself", "T11 derives-from / T4",
                 "in the binder-side inproc handler an error that was sent to the connector's reply channel is not also returned to the socket's event loop (whose Err shuts the whole socket down)")
    for cfg, prog in chk.configs():
        body = prog.body("socket::core::pipe_manager::process_inproc_binding_request_event::{closure#0}")
        if body is None:
            r.note("%s: inproc not compiled" % cfg)
            continue
        sends = []
        for c in body.calls:
            if c.name == "send" and len(c.args) >= 2 and re.search(r"reply_tx", body.provenance(c.args[0])):
                org = body.value_origin(c.args[1])
                if org[0] == "agg" and org[1]["r"].get("variant") == "Err":
                    sends.append(c)
        for c in sends:
            key = "%s|refusal replied#%d then Ok" % (short(body.path), sends.index(c))
            reach = body.reachable([c.target] if c.target is not None else [])
            bad = None
            for b in reach:
                for st in body.blocks[b]["st"]:
                    if st["k"] == "assign" and st["p"]["l"] == 0 and not st["p"]["pr"] and st["r"]["k"] == "agg" and st["r"].get("variant") == "Err":
                        bad = b
            if bad is not None:
                r.bad(cfg, key, where(body, bad), "after replying the refusal to the connector the handler also returns Err: the binder's event loop treats that as fatal and shuts the binder socket down (an incompatible peer kills a healthy socket)")
            else:
                r.ok(cfg, key, where(body, c.blk))
        r.require(cfg, 1, "refusal replies in the inproc binding handler")


def r3_backoff(chk):
    r = chk.rule("R3", "reconnect back-off shape", "T8/T9",
                 "on_connection_failure uses only saturating arithmetic, caps the delay with min(max_ivl) when max_ivl > 0, reads the attempt counter before incrementing it, and on_connection_success resets it")
    for cfg, prog in chk.configs():
        f = prog.body("socket::core::state::ReconnectState::on_connection_failure")
        s = prog.body("socket::core::state::ReconnectState::on_connection_success")
        if f is None or s is None:
            r.bad(cfg, "anchor|ReconnectState", "-", "not found")
            continue
        live = f.live_blocks()
        ovf = [b for b in live if f.term(b)["k"] == "assert" and f.term(b)["ak"].startswith("Overflow") and not f.blocks[b]["cleanup"]]
        mul = [c for c in f.calls if c.matches(r"Duration as std::ops::Mul|Duration::mul$|checked_mul$")]
        (r.ok if not ovf and not mul else r.bad)(cfg, "on_connection_failure|no overflowing arithmetic", where(f, (ovf or [0])[0]), *([] if not ovf and not mul else ["the back-off computation contains arithmetic that panics on overflow (attempt numbers are unbounded)"]))
        sat = [c.name for c in f.calls if c.name in ("saturating_pow", "saturating_mul", "saturating_add")]
        (r.ok if {"saturating_pow", "saturating_mul"} <= set(sat) else r.bad)(cfg, "on_connection_failure|saturating base * 2^attempts", where(f, 0), *([] if {"saturating_pow", "saturating_mul"} <= set(sat) else ["delay is not computed as base.saturating_mul(2.saturating_pow(attempts))"]))
        mins = [c for c in f.calls if c.name == "min" and "max_ivl" in " ".join(f.provenance(a) for a in c.args)]
        capped = False
        for c in mins:
            for g in f.guards(c.blk, select_aware=False):
                if g.atom[0] != "call":
                    continue
                gc = g.atom[1]
                pv = [f.provenance(a) for a in gc.args]
                # the only way around the cap is `max_ivl == 0` (option unset): max_ivl > ZERO, ZERO < max_ivl, max_ivl != ZERO, !max_ivl.is_zero()
                if gc.name == "gt" and len(pv) == 2 and pv[0] == "max_ivl" and pv[1].endswith("Duration::ZERO") and g.truth is True:
                    capped = True
                if gc.name == "lt" and len(pv) == 2 and pv[1] == "max_ivl" and pv[0].endswith("Duration::ZERO") and g.truth is True:
                    capped = True
                if gc.name == "ne" and len(pv) == 2 and "max_ivl" in pv and any(x.endswith("Duration::ZERO") for x in pv) and g.truth is True:
                    capped = True
                if gc.name == "is_zero" and pv and pv[0] == "max_ivl" and g.truth is False:
                    capped = True
        (r.ok if capped else r.bad)(cfg, "on_connection_failure|delay capped by max_ivl when set", where(f, mins[0].blk if mins else 0), *([] if capped else ["the delay is not passed through min(max_ivl) whenever max_ivl is set (the only admissible way around the cap is max_ivl == 0): delays can exceed RECONNECT_IVL_MAX"]))
        # attempts read (pow) before increment
        pows = [c for c in f.calls if c.name == "saturating_pow"]
        incs = [b for b, i, st in f.statements() if st["k"] == "assign" and st["p"]["pr"] and st["p"]["pr"][-1][0] == "field" and st["p"]["pr"][-1][2] == "current_attempts"]
        ok = bool(pows and incs and all(f.dominates(pows[0].blk, b) and b != pows[0].blk for b in incs))
        (r.ok if ok else r.bad)(cfg, "on_connection_failure|first delay = base", where(f, incs[0] if incs else 0), *([] if ok else ["the attempt counter is incremented before it is used: the first retry delay is 2 x RECONNECT_IVL"]))
        resets = [b for b, i, st in s.statements() if st["k"] == "assign" and st["p"]["pr"] and st["p"]["pr"][-1][2] == "current_attempts" and st["r"]["k"] == "use" and st["r"]["o"].get("int") == 0]
        (r.ok if resets else r.bad)(cfg, "on_connection_success|resets attempts", where(s, 0), *([] if resets else ["a successful connection does not reset the attempt counter"]))
        called = prog.calls_to(r"ReconnectState::on_connection_success$")
        (r.ok if called else r.bad)(cfg, "on_connection_success|is called", called[0].sp if called else "-", *([] if called else ["on_connection_success is never called"]))
        r.require(cfg, 6, "back-off obligations")


def r4_verdict_used(chk):
    r = chk.rule("R4", "the reconnect verdict is used", "T2",
                 "every caller of cleanup_stopped_child_resources branches on its boolean result")
    for cfg, prog in chk.configs():
        for c in prog.calls_to(r"pipe_manager::cleanup_stopped_child_resources$"):
            body = c.body
            aw = [a for a in body.awaits() if body.awaited_call(a) is not None and body.awaited_call(a).blk == c.blk]
            key = "%s|branches on should_reconnect" % short(body.path)
            used = False
            if aw and aw[0].ready_blk is not None:
                for s in body.reachable([aw[0].ready_blk]):
                    t = body.term(s)
                    if t["k"] == "switch" and t["dty"] == "bool":
                        a, _ = body.cond_atom(t["d"])
                        pv = ""
                        if a[0] == "place":
                            pv = a[1]
                        if "cleanup_stopped_child_resources" in pv or (a[0] == "discr" and "cleanup_stopped_child_resources" in a[1]):
                            used = True
            (r.ok if used else r.bad)(cfg, key, where(body, c.blk), *([] if used else ["the result of cleanup_stopped_child_resources (should the endpoint be reconnected?) is ignored: a lost outbound connection is not retried"]))
        r.require(cfg, 2, "callers of cleanup_stopped_child_resources")


def r5_lagged(chk):
    r = chk.rule("R5", "a lagging event-bus receiver is not a reason to die", "T2 sibling agreement",
                 "no consumer of the shared broadcast bus turns RecvError::Lagged into a socket shutdown or a fatal connection error")
    for cfg, prog in chk.configs():
        for body in prog.bodies.values():
            if not body.kind.startswith("coroutine") or "::tests" in body.path:
                continue
            for s in range(body.n):
                t = body.term(s)
                if t["k"] != "switch" or s not in body.live_blocks():
                    continue
                a, _ = body.cond_atom(t["d"])
                if a[0] != "discr" or a[2] != "tokio::sync::broadcast::error::RecvError":
                    continue
                # variant Closed=0, Lagged=1
                lab = body.label_for(s, 1)
                tgt = [tb for tb, l2 in body.edges(s) if l2 == lab]
                join = body.ipdom.get(s)
                region = body.reachable(tgt, avoid_blocks=[join] if join is not None else [])
                fatal = [c for c in body.calls if c.blk in region and c.matches(r"initiate_core_shutdown$|set_fatal_error$|transition_to_shutdown_stream$")]
                brk = False
                key = "%s|RecvError::Lagged" % short(body.path)
                if fatal:
                    r.bad(cfg, key, where(body, fatal[0].blk), "the Lagged arm calls `%s`: a burst of events caused by other sockets or peers (bus capacity 256) kills this socket / connection" % fatal[0].name)
                else:
                    r.ok(cfg, key, where(body, s), "Lagged is tolerated (resubscribe / continue)")
        r.require(cfg, 4, "consumers matching on RecvError")


def run(chk):
    chk.undecided = ["traffic resumption after reconnect", "timing of retries"]
    r1_who_may_shutdown(chk)
    r2_refusal_is_not_failure(chk)
    r3_backoff(chk)
    r4_verdict_used(chk)
    r5_lagged(chk)
