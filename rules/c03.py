"""C03 — ZMTP framing round-trips and is independent of how the stream is cut.

Decides that all writers and all readers of frame headers use ONE table (flag bits,
short/long threshold, header sizes, byte order) and that the incremental decoder consumes
nothing before a frame is complete; not the round-trip itself."""
import re

from vlib import mir
from vlib.mir import Guard
from vlib.util import where, short, norm_cmp, interval, INF

MORE, LONG, COMMAND = 1, 2, 4


def buffer_calls(body, names):
    return [c for c in body.calls if c.name in names and (c.matches(r"BufMut::put_|BytesMut.*::put_") or c.declared.startswith("bytes::BufMut::"))]


def next_on_same_buffer(body, c, puts):
    """first put_* call on the same buffer reachable from c without passing another put_* on it"""
    others = {x.blk: x for x in puts if x.recv() == c.recv() and x.blk != c.blk}
    seen = set()
    dq = [c.target] if c.target is not None else []
    while dq:
        b = dq.pop(0)
        if b in seen:
            continue
        seen.add(b)
        if b in others:
            return others[b]
        dq.extend(body.succ[b])
    return None


def r1_encoders(chk):
    r = chk.rule("R1", "all frame-header encoders use one table", "T9 constant agreement + T2 siblings",
                 "every function that writes a frame header: flag byte of a short frame ranges over {0,1,4,5}, of a long frame over {2,3,6,7} (MORE=1, LONG=2, COMMAND=4, LONG set iff long), short iff size <= 255, length written as u8 / big-endian u64")
    for cfg, prog in chk.configs():
        # constants
        for nm, val in (("ZMTP_FLAG_MORE", MORE), ("ZMTP_FLAG_LONG", LONG), ("ZMTP_FLAG_COMMAND", COMMAND)):
            got = [c.get("int") for p, c in prog.facts.consts.items() if p.endswith("::" + nm)]
            if got and all(g == val for g in got):
                r.ok(cfg, "const|%s == %d" % (nm, val), "core/src/protocol/zmtp")
            else:
                r.bad(cfg, "const|%s == %d" % (nm, val), "core/src/protocol/zmtp", "wire constant %s is %s, ZMTP 3.x requires %d" % (nm, got, val))
        n_enc = 0
        for body in prog.bodies.values():
            if "::tests" in body.path or "_tests::" in body.path or "/tests" in body.file:
                continue
            puts = buffer_calls(body, ("put_u8", "put_u64", "put_u64_le", "put_u64_ne", "put_u16", "put_u32"))
            if not any(c.name.startswith("put_u64") for c in puts) or not any(c.name == "put_u8" for c in puts):
                continue
            n_enc += 1
            en = short(body.path)
            flag_sites = []
            for c in puts:
                if c.name != "put_u8":
                    continue
                nxt = next_on_same_buffer(body, c, puts)
                if nxt is None:
                    continue
                if nxt.name == "put_u8" and not any(f[0].blk == nxt.blk for f in flag_sites):
                    # (flag, len) pair of a short header, unless c itself is the length byte of a previous pair
                    if any(f[1].blk == c.blk for f in flag_sites):
                        continue
                    flag_sites.append((c, nxt, "short"))
                elif nxt.name.startswith("put_u64"):
                    flag_sites.append((c, nxt, "long"))
            kinds = sorted(set(k for _, _, k in flag_sites))
            if kinds != ["long", "short"]:
                r.bad(cfg, "%s|header sites" % en, where(body, 0), "could not identify one short (put_u8,put_u8) and one long (put_u8,put_u64) header site: found %s" % kinds)
                continue
            for fc, lc, kind in flag_sites:
                vals = body.values_at(fc.args[1], fc.blk, len(body.blocks[fc.blk]["st"]))
                want = {0, 1, 4, 5} if kind == "short" else {2, 3, 6, 7}
                key = "%s|%s header flag byte" % (en, kind)
                if vals is None:
                    r.bad(cfg, key, where(body, fc.blk), "the flag byte is not built from the MORE/LONG/COMMAND constants in a recognisable way")
                elif vals == want:
                    r.ok(cfg, key, where(body, fc.blk), "possible values %s" % sorted(vals))
                else:
                    miss = sorted(want - vals)
                    extra = sorted(vals - want)
                    why = []
                    if any(v & COMMAND for v in miss):
                        why.append("the COMMAND bit (0x04) can never be emitted")
                    if any(v & MORE for v in miss):
                        why.append("the MORE bit (0x01) can never be emitted")
                    if kind == "long" and any(not (v & LONG) for v in vals):
                        why.append("a long header can be written without the LONG bit")
                    if kind == "short" and any(v & LONG for v in vals):
                        why.append("a short header can carry the LONG bit")
                    r.bad(cfg, key, where(body, fc.blk), "flag byte ranges over %s, the sibling encoders emit %s (%s): a frame with that flag combination does not round-trip through this encoder" % (sorted(vals), sorted(want), "; ".join(why) or "missing %s extra %s" % (miss, extra)))
                # length writer
                key2 = "%s|%s length field" % (en, kind)
                if kind == "long":
                    if lc.name == "put_u64":
                        r.ok(cfg, key2, where(body, lc.blk), "big-endian u64")
                    else:
                        r.bad(cfg, key2, where(body, lc.blk), "long length written with %s: ZMTP lengths are big-endian" % lc.name)
                else:
                    prov = body.provenance(lc.args[1])
                    r.ok(cfg, key2, where(body, lc.blk), "u8 length: " + prov[:60])
                # threshold
                key3 = "%s|%s threshold" % (en, kind)
                ivs = []
                for g in body.guards(fc.blk, select_aware=False):
                    nc = norm_cmp(body, g)
                    if nc and isinstance(nc[2], int) and nc[2] in (254, 255, 256):
                        ivs.append(interval(nc[1], nc[2]))
                want_iv = (0, 255) if kind == "short" else (256, INF)
                if want_iv in ivs:
                    r.ok(cfg, key3, where(body, fc.blk), "size in [%s, %s]" % want_iv)
                else:
                    r.bad(cfg, key3, where(body, fc.blk), "the %s header is chosen for sizes %s; ZMTP uses the 2-byte header for 0..255 and the 9-byte header above" % (kind, ivs))
        r.require(cfg, 3 + 5 * 6, "encoder obligations (3 constants + 5 encoders x 6)")


def r2_decoders(chk):
    r = chk.rule("R2", "all frame-header decoders use one table", "T9 constant agreement + T2 siblings",
                 "every decoder tests exactly the masks MORE/LONG/COMMAND, uses header length 9 iff LONG else 2, reads the length big-endian and maps MORE/COMMAND to the MsgFlags of the same name")
    for cfg, prog in chk.configs():
        n = 0
        for body in prog.bodies.values():
            if "::tests" in body.path or "_tests::" in body.path:
                continue
            is_dec = (body.impl_self == "protocol::zmtp::manual_parser::ZmtpManualParser" and body.name in ("decode_from_buffer", "decode_frame_from_slice", "decode_frame_from_bytes", "peek_frame_len")) or \
                     (body.impl_trait and body.impl_trait.endswith("codec::Decoder") and body.name == "decode" and "zmtp::codec" in body.path)
            if not is_dec or body.kind == "closure":
                continue
            n += 1
            dn = short(body.path)
            masks = {}
            for b, i, st in body.statements():
                if st["k"] == "assign" and st["r"]["k"] == "binop" and st["r"]["op"] == "BitAnd":
                    va, vb = body.const_int(st["r"]["a"]), body.const_int(st["r"]["b"])
                    m = vb if vb is not None else va
                    if m is not None and m < 256:
                        masks.setdefault(m, []).append(b)
            need = {LONG} if body.name == "peek_frame_len" else {MORE, LONG, COMMAND}
            key = "%s|flag masks" % dn
            if set(masks) == need:
                r.ok(cfg, key, where(body, 0), "masks %s" % sorted(masks))
            else:
                r.bad(cfg, key, where(body, 0), "tests masks %s, expected %s" % (sorted(masks), sorted(need)))
            # header lengths {2, 9}, 9 on the LONG edge
            hl = None
            for l, nm in body.names[0].items():
                if nm == "header_len":
                    hl = body.eval_ints({"c": "copy", "p": {"l": l, "pr": [], "s": "", "ty": ""}})
            key = "%s|header length" % dn
            if hl == {2, 9}:
                r.ok(cfg, key, where(body, 0), "{2, 9}")
            else:
                r.bad(cfg, key, where(body, 0), "header length takes values %s, expected {2, 9}" % (sorted(hl) if hl else hl))
            # byte order
            le = [c for c in body.calls if c.matches(r"from_le_bytes$|get_u64_le$|from_ne_bytes$|get_u64_ne$")]
            be = [c for c in body.calls if c.matches(r"from_be_bytes$|Buf::get_u64$")]
            key = "%s|big-endian length" % dn
            if be and not le:
                r.ok(cfg, key, where(body, be[0].blk))
            else:
                r.bad(cfg, key, where(body, (le or be or [None])[0].blk if (le or be) else 0), "the 64-bit length is not read big-endian")
            # flag mapping
            if body.name != "peek_frame_len":
                for mask, flag in ((MORE, "MORE"), (COMMAND, "COMMAND")):
                    key = "%s|mask %d -> MsgFlags::%s" % (dn, mask, flag)
                    ok = False
                    for c in body.calls:
                        if c.name in ("bitor_assign", "insert", "bitor") and "message::flags" in c.callee and any(("MsgFlags>::" + flag) in (a.get("item") or "") for a in c.args):
                            for g in body.guards(c.blk, select_aware=False):
                                if g.atom[0] == "cmp":
                                    pv = body.provenance(g.atom[2]) + body.provenance(g.atom[3])
                                    if re.search(r"BitAnd\([^()]*,const:%d\)" % mask, pv.replace("const:protocol::zmtp::command::ZMTP_FLAG_%s" % flag, "const:%d" % mask)) or ("ZMTP_FLAG_%s" % flag) in pv:
                                        ok = True
                    if ok:
                        r.ok(cfg, key, where(body, 0))
                    else:
                        r.bad(cfg, key, where(body, 0), "MsgFlags::%s is not set under the test of wire bit %d" % (flag, mask))
        r.require(cfg, 5 * 4 - 2, "decoder obligations")


def r3_no_partial_consumption(chk):
    r = chk.rule("R3", "a decoder consumes nothing until the frame is complete", "T3 guarded-by",
                 "in the stateless header path of ZmtpManualParser::decode_from_buffer every consuming call is dominated by the body-completeness test; the tokio codec instead records ReadBody state before returning None")
    for cfg, prog in chk.configs():
        for body in prog.bodies.values():
            if body.impl_self == "protocol::zmtp::manual_parser::ZmtpManualParser" and body.name == "decode_from_buffer" and body.kind != "closure":
                for c in body.calls:
                    if c.name not in ("get_u8", "split_to", "advance", "get_u64", "copy_to_bytes"):
                        continue
                    gs = body.guards(c.blk, select_aware=False)
                    in_header_state = any(g.atom[0] == "discr" and g.atom[1].endswith(".state") and g.is_value(0) for g in gs)
                    if not in_header_state:
                        continue
                    key = "%s|%s after completeness test" % (short(body.path), c.name)
                    ok = False
                    for g in gs:
                        if g.atom[0] == "cmp" and g.truth is False and g.atom[1] == "Lt":
                            x = body.provenance(g.atom[2])
                            if re.match(r"^Sub\(.*::len\(src\),header_len\)$", x):
                                ok = True
                    if ok:
                        r.ok(cfg, key, where(body, c.blk), "dominated by `src.len() - header_len >= size`")
                        continue
                    # accepted alternative (the tokio codec's idiom): consume the header, then record ReadBody state on
                    # every path before returning
                    stores = set(b for b, i, st in body.statements() if st["k"] == "assign" and st["p"]["pr"] and st["p"]["pr"][-1][0] == "field" and st["p"]["pr"][-1][2] == "state")
                    reach = body.reachable([c.target] if c.target is not None else [], avoid_blocks=stores)
                    leaks = [b for b in reach if body.term(b)["k"] == "return" and not any(st["k"] == "assign" and st["r"]["k"] == "agg" and st["r"].get("variant") == "Err" for x in (body.bwd_reachable([b]) & reach) for st in body.blocks[x]["st"])]
                    if stores and not leaks:
                        r.ok(cfg, key, where(body, c.blk), "header consumed early, ReadBody state recorded before returning (codec idiom)")
                    else:
                        r.bad(cfg, key, where(body, c.blk), "`%s` consumes bytes of the shared accumulator before the whole frame is known to be present and without recording the decoder state: a header cut from its body desynchronises the stream" % c.name)
                # R3b: once a resumable ReadBody state exists, no length-based early `Ok(None)` may sit before the state dispatch
                sets_body_state = any(st["p"]["pr"] and st["p"]["pr"][-1][0] == "field" and st["p"]["pr"][-1][2] == "state" and body.value_origin(st["r"]["o"])[0] == "agg" and body.value_origin(st["r"]["o"])[1]["r"].get("variant") == "ReadBody"
                                      for b, i, st in body.statements() if st["k"] == "assign" and st["r"]["k"] == "use")
                disp = [sw for sw in range(body.n) if body.term(sw)["k"] == "switch" and body.cond_atom(body.term(sw)["d"])[0][0] == "discr" and body.cond_atom(body.term(sw)["d"])[0][1].endswith(".state")]
                key = "%s|no length test before the state dispatch" % short(body.path)
                if sets_body_state and disp:
                    early = []
                    for g_s in range(body.n):
                        t = body.term(g_s)
                        if t["k"] != "switch" or not body.dominates(g_s, disp[0]) or g_s == disp[0]:
                            continue
                        a, _ = body.cond_atom(t["d"])
                        pv = ""
                        if a[0] == "cmp":
                            pv = body.provenance(a[2]) + body.provenance(a[3])
                        elif a[0] == "call":
                            pv = a[1].callee + "(" + (a[1].recv() or "") + ")"
                        if re.search(r"::(len|is_empty|remaining)\(src\)", pv):
                            early.append(g_s)
                    if early:
                        r.bad(cfg, key, where(body, early[0]), "a length test on the input buffer runs before the decoder looks at its state, while the decoder can be waiting in ReadBody: a body shorter than that test's bound (1-byte or empty payload after a split header) is withheld forever")
                    else:
                        r.ok(cfg, key, where(body, disp[0]))
                else:
                    r.ok(cfg, key, where(body, disp[0] if disp else 0), "the decoder never parks in ReadBody (stateless header path)")
            if body.impl_trait and body.impl_trait.endswith("codec::Decoder") and body.name == "decode" and "zmtp::codec" in body.path:
                # header consumed -> state stored before any `return Ok(None)`
                hdr = [c for c in body.calls if c.name == "split_to" and any(g.atom[0] == "discr" and g.atom[1].endswith(".decoding_state") and g.is_value(0) for g in body.guards(c.blk, select_aware=False))]
                for c in hdr:
                    key = "%s|state recorded after consuming the header" % short(body.path)
                    stores = set(b for b, i, st in body.statements() if st["k"] == "assign" and st["p"]["pr"] and st["p"]["pr"][-1][0] == "field" and st["p"]["pr"][-1][2] == "decoding_state")
                    reach = body.reachable([c.target], avoid_blocks=stores)
                    # error returns are fine (connection dies); Ok(None)/Ok(Some) returns are not
                    bad = False
                    for b in reach:
                        if body.term(b)["k"] == "return":
                            # does this return path construct Err?
                            errs = [x for x in body.bwd_reachable([b]) & reach if any(st["k"] == "assign" and st["r"]["k"] == "agg" and st["r"].get("variant") == "Err" for st in body.blocks[x]["st"])]
                            if not errs:
                                bad = True
                    if bad:
                        r.bad(cfg, key, where(body, c.blk), "the header is consumed and the function can return without recording ReadBody state: the next call would parse body bytes as a header")
                    else:
                        r.ok(cfg, key, where(body, c.blk))
        r.require(cfg, 3, "consuming calls in the header path")


def r4_staged_header_emitted(chk):
    r = chk.rule("R4", "a header written into a staging buffer is emitted by the same call", "T4 must-pass-through",
                 "in every encoder that first writes a frame header into a staging buffer (`self.<buf>.put_*`) and emits it by carving the buffer (`split()`): on every path "
                 "from the header write to the function's return the carve happens - no frame (for instance a zero-length one) leaves its "
                 "header behind to be glued to a later frame or lost")
    for cfg, prog in chk.configs():
        n = 0
        for body in prog.bodies.values():
            if "::tests" in body.path or "_tests::" in body.path or not re.search(r"core/src/(security/framer|protocol/zmtp)/", body.file):
                continue
            puts = [c for c in body.calls if re.search(r"BufMut>?::put_(u8|u16|u32|u64)$", c.callee + "|" + c.declared) or c.name in ("put_u8", "put_u64")]
            by_buf = {}
            for c in puts:
                rp = c.recv() or ""
                if re.match(r"^self\.\w+$", rp):
                    by_buf.setdefault(rp, []).append(c)
            for buf, cs in by_buf.items():
                carves = [c for c in body.calls if c.name in ("split", "split_to", "split_off") and "BytesMut" in c.callee and (c.recv() or "") == buf]
                if not carves:
                    continue  # not a staging buffer that is carved (headers written straight into the output)
                carve_blocks = set(c.blk for c in carves)
                for c in cs:
                    loops = body.loops_containing(c.blk)
                    if not loops:
                        continue
                    h, lb = loops[0]  # innermost
                    n += 1
                    key = "%s|header staged in %s is carved out in the same iteration#%d" % (short(body.path), buf, len([1 for x in cs if x.blk < c.blk and body.loops_containing(x.blk)]))
                    # paths from the write that avoid every carve: may they reach the loop header again, or a return?
                    reach = body.reachable([c.target] if c.target is not None else [], avoid_blocks=carve_blocks)
                    escapes = [x for x in reach if body.term(x)["k"] == "return"]
                    if escapes:
                        r.bad(cfg, key, where(body, c.blk), "after the frame header is written into `%s` a path reaches the function's return without carving it out (`%s.split()`): that frame's header stays in the staging buffer - it is missing from this call's output and turns up in front of a later frame (or is lost)" % (buf, buf))
                    else:
                        r.ok(cfg, key, where(body, c.blk), "every path to the return carves the buffer")
        if cfg in ("default", "noplain", "full", "full-linux"):
            r.require(cfg, 2, "staged header writes inside encoder loops")


def run(chk):
    chk.undecided = ["decode(encode(x)) == x for all frames and all segmentations (value-level)"]
    r1_encoders(chk)
    r2_decoders(chk)
    r3_no_partial_consumption(chk)
    r4_staged_header_emitted(chk)
