"""C07 — no byte stream from a peer can crash rzmq or make it buffer without bound."""
import json
import os
import re

from vlib import mir
from vlib.mir import strip_generics
from vlib.util import where, short, is_plumbing, norm_cmp, interval, INF, guard_interval

HERE = os.path.dirname(os.path.abspath(__file__))

# ----------------------------------------------------------------------------
# R1: panic-freedom of the peer-facing parsers (T8)
# ----------------------------------------------------------------------------
PARSER_FILES = re.compile(
    r"core/src/(protocol/zmtp/(manual_parser|command|greeting|codec|engine)\.rs|security/|message/mod\.rs|socket/core/inproc_reader\.rs|io_uring_backend/(zmtp_handler|worker/multishot_reader)\.rs)")

PANIC_CALL = re.compile(
    r"(Option|Result)::(unwrap|expect|unwrap_err|expect_err)$|^core::panicking|^std::rt::begin_panic|slice::index::index(_mut)?$|Index<.*>>::index$|IndexMut<.*>>::index_mut$|::copy_from_slice$|BytesMut::split_to$|BytesMut::split_off$|Bytes::split_to$|Bytes::split_off$|Bytes::slice$|Buf>::advance$|Buf::advance$|Buf::get_|Buf::copy_to_bytes$|Buf::copy_to_slice$|VecU8::(push|insert|remove|with_capacity|extend)$|FrameBatch::(push|insert|remove)$|Instant as std::ops::Add|Duration as std::ops::Mul|Vec::(remove|swap_remove|insert|drain|split_off)$|RefCell::borrow(_mut)?$|::split_at(_mut)?$")


def ingress_roots(prog):
    roots = []
    for b in prog.bodies.values():
        sp = strip_generics(b.path)
        if "::tests" in sp or "_tests::" in sp or b.kind == "closure":
            continue
        if b.impl_self == "protocol::zmtp::engine::ZmtpEngine" and b.name in ("on_network_bytes", "on_tick", "start", "close"):
            roots.append(sp)
        elif b.impl_trait in ("security::mechanism::Mechanism", "security::framer::ISecureFramer", "security::cipher::IDataCipher") and b.name in (
                "process_token", "produce_token", "into_framer", "try_read_msg", "try_read_msg_batch", "decrypt"):
            roots.append(sp)
        elif sp.endswith("ZmtpCommand::parse") or sp.endswith("ZmtpGreeting::decode") or sp.endswith("ZmtpGreeting::peek_revision"):
            roots.append(sp)
        elif b.impl_self == "protocol::zmtp::manual_parser::ZmtpManualParser" and b.name in ("decode_from_buffer", "decode_frame_from_slice", "decode_frame_from_bytes", "peek_frame_len"):
            roots.append(sp)
        elif b.impl_trait and b.impl_trait.endswith("codec::Decoder") and b.name == "decode":
            roots.append(sp)
        elif "socket::core::inproc_reader::spawn" in sp:
            roots.append(sp)
        elif b.impl_self and "ZmtpUringHandler" in b.impl_self and b.name in ("process_ring_read_bytes", "apply_engine_output"):
            roots.append(sp)
        elif "MultishotReader" in sp and b.name == "process_cqe":
            roots.append(sp)
    return sorted(set(roots))


def base_of_assert(body, t):
    """(kind, value): provenance of the buffer a BoundsCheck assert protects, and the index operand"""
    m = re.search(r"len: (?:move|copy) _(\d+)", t["msg"])
    if not m:
        m2 = re.search(r"len: const (\d+)", t["msg"])
        return ("const", int(m2.group(1))) if m2 else (None, None)
    l = int(m.group(1))
    ds = body.whole_defs(l)
    if len(ds) == 1 and ds[0][0] == "assign":
        rv = ds[0][3]["r"]
        if rv["k"] == "unop" and rv["op"] == "PtrMetadata":
            return ("path", body.provenance(rv["o"]))
        if rv["k"] == "use" and rv["o"]["c"] == "const":
            return ("const", rv["o"].get("int"))
    return ("path", body.local_path(l))


def index_of_assert(body, t):
    m = re.search(r"index: (?:move|copy) _(\d+)", t["msg"])
    if m:
        return body.provenance({"c": "copy", "p": {"l": int(m.group(1)), "pr": [], "s": "", "ty": ""}})
    m = re.search(r"index: const (\d+)", t["msg"])
    if m:
        return "const:%s" % m.group(1)
    return None


LEN_RX = r"^[\w:<>' ,&\[\]]*::(len|remaining)\(%s\)$"


def length_facts(body, blk, base):
    """[(X, delta, guard)]: on every path to blk, len(base) >= X + delta, X a provenance string ('const:N' for constants)."""
    out = []
    if base is None:
        return out
    rx = re.compile(LEN_RX % re.escape(base))
    for g in body.guards(blk, select_aware=False):
        a = g.atom
        if a[0] == "call" and g.truth is not None:
            c = a[1]
            if c.name == "is_empty" and body.provenance(c.args[0]) == base and g.truth is False:
                out.append(("const:0", 1, g))
            if c.name == "has_remaining" and body.provenance(c.args[0]) == base and g.truth is True:
                out.append(("const:0", 1, g))
            continue
        if a[0] != "cmp" or g.truth is None:
            continue
        op = a[1]
        x, y = body.provenance(a[2]), body.provenance(a[3])
        if not g.truth:
            op = {"Lt": "Ge", "Le": "Gt", "Gt": "Le", "Ge": "Lt", "Eq": "Ne", "Ne": "Eq"}[op]
        # normalise to  L op X
        if rx.match(y) and not rx.match(x):
            x, y = y, x
            op = {"Lt": "Gt", "Le": "Ge", "Gt": "Lt", "Ge": "Le", "Eq": "Eq", "Ne": "Ne"}[op]
        if rx.match(x):
            if op == "Ge":
                out.append((y, 0, g))
            elif op == "Gt":
                out.append((y, 1, g))
            elif op == "Eq":
                out.append((y, 0, g))
            continue
        # cursor idiom: position(cursor) < len(whatever)  =>  remaining(cursor) >= 1
        if op == "Lt" and re.search(r"Cursor::position\(%s\)$" % re.escape(base), x):
            out.append(("const:0", 1, g))
        if op == "Gt" and re.search(r"Cursor::position\(%s\)$" % re.escape(base), y):
            out.append(("const:0", 1, g))
    return out


def const_of(s):
    m = re.match(r"^const:(-?\d+)$", s)
    return int(m.group(1)) if m else None


def amount_satisfied(facts_, amount):
    """is len >= amount implied by one of the facts?  amount: provenance string"""
    ca = const_of(amount)
    for x, delta, g in facts_:
        cx = const_of(x)
        if ca is not None and cx is not None and cx + delta >= ca:
            return g
        if x == amount:
            return g
        # X = Add(amount, k) or Add(k, amount)
        m = re.match(r"^Add\((.*)\)$", x)
        if m:
            inner = m.group(1)
            if inner.startswith(amount + ",") or inner.endswith("," + amount):
                return g
        # amount = Add(X, const:k) with k <= delta
        m = re.match(r"^Add\((.*),const:(\d+)\)$", amount)
        if m and m.group(1) == x and int(m.group(2)) <= delta:
            return g
        m = re.match(r"^Add\(const:(\d+),(.*)\)$", amount)
        if m and m.group(2) == x and int(m.group(1)) <= delta:
            return g
    return None


def requirement(body, blk, kind, call):
    """(base provenance, amount provenance) meaning the site needs len(base) >= amount; amount None = unknown"""
    t = body.term(blk)
    if kind == "index" and t["k"] == "assert":
        bk, base = base_of_assert(body, t)
        idx = index_of_assert(body, t)
        if idx is None:
            return base, None
        ci = const_of(idx)
        return base, ("const:%d" % (ci + 1)) if ci is not None else "Add(%s,const:1)" % idx
    c = call
    base = body.provenance(c.args[0]) if c.args else None
    if kind in ("index", "index_mut") and len(c.args) >= 2:
        r = body.provenance(c.args[1])
        m = re.match(r"^Range\{(.*),(.*)\}$", r)
        if m:
            # greedy split may be wrong for nested commas; take the last top-level comma
            inner = r[len("Range{"):-1]
            depth = 0
            cut = None
            for i, ch in enumerate(inner):
                if ch in "({":
                    depth += 1
                elif ch in ")}":
                    depth -= 1
                elif ch == "," and depth == 0:
                    cut = i
            return base, inner[cut + 1:] if cut is not None else None
        m = re.match(r"^RangeTo\{(.*)\}$", r)
        if m:
            return base, m.group(1)
        m = re.match(r"^RangeFrom\{(.*)\}$", r)
        if m:
            return base, m.group(1)
        if r.startswith("RangeFull"):
            return base, "const:0"
        ci = const_of(r)
        if ci is not None:
            return base, "const:%d" % (ci + 1)
        return base, "Add(%s,const:1)" % r
    if kind in ("split_to", "split_off", "advance", "copy_to_bytes", "truncate") and len(c.args) >= 2:
        return base, body.provenance(c.args[1])
    if kind.startswith("get_"):
        n = {"get_u8": 1, "get_i8": 1, "get_u16": 2, "get_i16": 2, "get_u32": 4, "get_i32": 4, "get_u64": 8, "get_i64": 8}.get(kind.replace("_le", ""))
        return base, ("const:%d" % n) if n else None
    if kind == "copy_to_slice" and len(c.args) >= 2:
        dst = body.provenance(c.args[1])
        m = re.search(r"from_elem\(const:\d+,(.*)\)$", dst) or re.search(r"from_elem\((.*)\)$", dst)
        return base, (m.group(1).split(",", 1)[-1] if m else None)
    return base, None


def copy_from_slice_const(body, c):
    """dst is a fixed array of N bytes and src a slice taken with a constant range of length N"""
    def arr_len(o):
        org = o
        for _ in range(6):
            if org["c"] not in ("copy", "move") or org["p"]["pr"]:
                return None
            ds = body.whole_defs(org["p"]["l"])
            if len(ds) != 1 or ds[0][0] != "assign":
                return None
            rv = ds[0][3]["r"]
            if rv["k"] == "ref":
                m = re.match(r"^\[u8; (\d+)\]$", rv["p"]["ty"])
                return int(m.group(1)) if m else None
            if rv["k"] in ("use", "cast"):
                org = rv["o"]
                continue
            return None
        return None
    n = arr_len(c.args[0])
    if n is None:
        return False
    src = body.provenance(c.args[1])
    m = re.search(r"Range\{const:(\d+),const:(\d+)\}", "")
    # src = index(X, Range{const a, const b}) : look at the defining call of src
    org = body.value_origin(c.args[1])
    o = c.args[1]
    for _ in range(6):
        if o["c"] not in ("copy", "move") or o["p"]["pr"]:
            return False
        ds = body.whole_defs(o["p"]["l"])
        if len(ds) != 1:
            return False
        d = ds[0]
        if d[0] == "call":
            cc = mir.Call(body, d[1], d[3])
            if cc.name in ("index", "index_mut") and len(cc.args) >= 2:
                r = body.provenance(cc.args[1])
                m = re.match(r"^Range\{const:(\d+),const:(\d+)\}$", r)
                if m and int(m.group(2)) - int(m.group(1)) == n:
                    return True
            return False
        if d[0] == "assign" and d[3]["r"]["k"] in ("use", "cast", "ref", "copyderef"):
            rv = d[3]["r"]
            o = rv["o"] if "o" in rv else {"c": "copy", "p": rv["p"]}
            continue
        return False
    return False


def u64_parsed(body, o, depth=0):
    """does this operand derive (by value) from a 64-bit integer parsed out of wire bytes?"""
    if depth > 10 or o["c"] not in ("copy", "move"):
        return False
    if o["p"]["pr"]:
        return False
    for d in body.whole_defs(o["p"]["l"]):
        if d[0] == "call":
            c = mir.Call(body, d[1], d[3])
            if c.matches(r"from_be_bytes$|from_le_bytes$|Buf::get_u64"):
                if re.search(r"u64|usize", d[3]["dest"]["ty"]):
                    return True
        elif d[0] == "assign":
            rv = d[3]["r"]
            if rv["k"] in ("use", "cast") and u64_parsed(body, rv["o"], depth + 1):
                return True
            if rv["k"] == "binop" and (u64_parsed(body, rv["a"], depth + 1) or u64_parsed(body, rv["b"], depth + 1)):
                return True
    return False


def load_justified():
    with open(os.path.join(HERE, "c07_justified.json")) as fh:
        return json.load(fh)


SUMMARY_FILES = re.compile(r"core/src/message/mod\.rs")  # FrameBatch container: judged at its call sites


def panic_sites(prog):
    roots = ingress_roots(prog)
    cone = sorted(c for c in prog.reach(roots) if "::tests" not in c and "_tests::" not in c)
    sites = []
    for cpath in cone:
        body = prog.body(cpath)
        if body is None or not PARSER_FILES.search(body.file) or SUMMARY_FILES.search(body.file):
            continue
        live = body.live_blocks()
        seen = {}
        for i in sorted(live):
            blk = body.blocks[i]
            t = blk["t"]
            if blk["cleanup"] or is_plumbing(t):
                continue
            kind = base = None
            call = None
            if t["k"] == "assert":
                ak = t["ak"]
                if ak.startswith("BoundsCheck"):
                    bk, bv = base_of_assert(body, t)
                    if bk == "const":
                        continue  # fixed-size array indexed against its constant length
                    kind, base = "index", bv
                elif ak.startswith("Overflow"):
                    tainted = False
                    for st in blk["st"]:
                        if st["k"] == "assign" and st["r"]["k"] == "binop" and st["r"]["op"].endswith("WithOverflow"):
                            if u64_parsed(body, st["r"]["a"]) or u64_parsed(body, st["r"]["b"]):
                                tainted = True
                    if not tainted:
                        continue
                    kind, base = "overflow:" + re.sub(r"\(.*", "", t["msg"]), "value parsed from a 64-bit wire field"
                else:
                    continue
            elif t["k"] == "call":
                c = mir.Call(body, i, t)
                call = c
                if c.callee == "bytes::Bytes::copy_from_slice":
                    continue  # constructor, cannot panic
                if not PANIC_CALL.search(c.callee) and not PANIC_CALL.search(c.declared):
                    continue
                nm = c.name
                if c.callee.startswith("core::panicking") or c.callee.startswith("std::rt::begin_panic"):
                    mac = (t.get("exp") or "").split("<")[-1].replace("macro:", "")
                    kind, base = "panic:" + (mac or c.name), None
                elif nm in ("unwrap", "expect", "unwrap_err", "expect_err"):
                    kind, base = nm, body.provenance(c.args[0])
                else:
                    kind, base = nm, (body.provenance(c.args[0]) if c.args else None)
            if kind is None:
                continue
            k0 = "%s|%s|%s" % (short(cpath), kind, (base or "-")[:110])
            n = seen.get(k0, 0)
            seen[k0] = n + 1
            key = k0 if n == 0 else "%s#%d" % (k0, n)
            sites.append((body, i, kind, base, key, call))
    return roots, cone, sites


def describe_guard(body, g):
    if g.atom[0] == "call":
        return "%s(%s)==%s" % (g.atom[1].callee, body.provenance(g.atom[1].args[0]) if g.atom[1].args else "", g.truth)
    if g.atom[0] == "cmp":
        return "cmp %s %s %s ==%s" % (g.atom[1], body.provenance(g.atom[2]), body.provenance(g.atom[3]), g.truth)
    if g.atom[0] in ("place", "discr"):
        return "%s %s [%s]" % (g.atom[0], g.atom[1], g.label)
    return g.atom[0]


def r1_panic_cone(chk):
    r = chk.rule("R1", "panic-freedom of the peer-facing parsers", "T8 panic-site reachability with guard verification",
                 "every panic-capable construct reachable from the ingress roots inside the parser/security/engine modules is (i) proved guarded: a dominating comparison implies len(buffer) >= the amount the access needs, or (ii) listed in rules/c07_justified.json with a reason and, where one exists, the guard that must keep dominating it; anything else is reported")
    just = load_justified()
    for cfg, prog in chk.configs():
        roots, cone, sites = panic_sites(prog)
        r.note("%s: %d ingress roots, %d bodies in the cone, %d panic-capable sites judged" % (cfg, len(roots), len(cone), len(sites)))
        for body, blk, kind, base, key, call in sites:
            # (i) exact proof
            proved = None
            if kind in ("index", "index_mut", "split_to", "split_off", "advance", "copy_to_bytes", "copy_to_slice") or kind.startswith("get_"):
                b2, amount = requirement(body, blk, kind, call)
                if amount is not None:
                    g = amount_satisfied(length_facts(body, blk, b2), amount)
                    if g is not None:
                        proved = "len(%s) >= %s by bb%d: %s" % (b2, amount, g.s, describe_guard(body, g)[:120])
                    elif const_of(amount) == 0:
                        proved = "needs no bytes"
            elif kind == "copy_from_slice" and call is not None and copy_from_slice_const(body, call):
                proved = "destination array and constant source range have the same length"
            if proved:
                r.ok(cfg, key, where(body, blk), "guarded: " + proved)
                continue
            j = just.get(key)
            if j is not None:
                need = j.get("needs_guard")
                if need:
                    if not any(re.search(need, describe_guard(body, g)) for g in body.guards(blk, select_aware=False)):
                        r.bad(cfg, key, where(body, blk), "justified only under a dominating guard matching /%s/, which no longer dominates the site: %s" % (need, j["reason"]))
                        continue
                r.ok(cfg, key, where(body, blk), "justified: " + j["reason"])
                continue
            r.bad(cfg, key, where(body, blk), "panic-capable `%s` on `%s` is reachable from peer input; no dominating comparison implies the access is in range and the site is not in the justified table: a short / malformed / oversized input panics the connection task" % (kind, (base or "-")[:100]))
        floor = {"default": 40, "noplain": 35, "full": 70, "full-linux": 75}.get(cfg, 35)
        r.require(cfg, floor, "panic-capable sites in the ingress cone")


def run(chk):
    chk.undecided = ["'keeps decoding' liveness", "memory bounds other than MAXMSGSIZE and the accumulator cap", "panics inside external crates beyond the summary list"]
    r1_panic_cone(chk)
