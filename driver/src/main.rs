// Fact extractor for the static rules in /verif/rules.
//
// Invoked through RUSTC_WORKSPACE_WRAPPER: argv = [driver, rustc, args...].
// For the crate named by VERIF_FACTS_CRATE (default "rzmq", lib target only) it
// overrides `mir_borrowck` to read the pre-borrowck, pre-coroutine-transform MIR
// (`mir_promoted`) of every body (roots and nested closures/coroutines) and
// prints one JSON object per body, plus item facts (ADTs, impls, consts, fns)
// and a trailer, to VERIF_FACTS_OUT in a single write. No analysis happens
// here: the driver prints, the Python rule engine decides.
#![feature(rustc_private)]
#![allow(rustc::internal)]

extern crate rustc_abi;
extern crate rustc_borrowck;
extern crate rustc_data_structures;
extern crate rustc_driver;
extern crate rustc_hir;
extern crate rustc_interface;
extern crate rustc_middle;
extern crate rustc_session;
extern crate rustc_span;

use std::fmt::Write as _;
use std::sync::Mutex;

use rustc_hir::def::DefKind;
use rustc_hir::def_id::{DefId, LocalDefId};
use rustc_middle::mir::{
  self, AggregateKind, BasicBlock, Body, Operand, Place, ProjectionElem, Rvalue, StatementKind,
  TerminatorKind, UnwindAction,
};
use rustc_middle::ty::print::with_no_trimmed_paths;
use rustc_middle::ty::{self, Ty, TyCtxt};
use rustc_span::Span;

static BODIES: Mutex<Vec<String>> = Mutex::new(Vec::new());
static SEEN: Mutex<Vec<u32>> = Mutex::new(Vec::new());

fn esc(s: &str) -> String {
  let mut o = String::with_capacity(s.len() + 2);
  o.push('"');
  for c in s.chars() {
    match c {
      '"' => o.push_str("\\\""),
      '\\' => o.push_str("\\\\"),
      '\n' => o.push_str("\\n"),
      '\r' => o.push_str("\\r"),
      '\t' => o.push_str("\\t"),
      c if (c as u32) < 0x20 => {
        let _ = write!(o, "\\u{:04x}", c as u32);
      }
      c => o.push(c),
    }
  }
  o.push('"');
  o
}

fn ty_str<'tcx>(t: Ty<'tcx>) -> String {
  with_no_trimmed_paths!(format!("{}", t))
}

fn path_str(tcx: TyCtxt<'_>, d: DefId) -> String {
  with_no_trimmed_paths!(tcx.def_path_str(d))
}

fn span_str(tcx: TyCtxt<'_>, sp: Span) -> String {
  let sp = sp.source_callsite();
  let sm = tcx.sess.source_map();
  let lo = sm.lookup_char_pos(sp.lo());
  let name = format!("{}", lo.file.name.prefer_local_unconditionally());
  format!("{}:{}:{}", name, lo.line, lo.col.0 + 1)
}

fn span_lines(tcx: TyCtxt<'_>, sp: Span) -> String {
  let sm = tcx.sess.source_map();
  let lo = sm.lookup_char_pos(sp.lo());
  let hi = sm.lookup_char_pos(sp.hi());
  let name = format!("{}", lo.file.name.prefer_local_unconditionally());
  format!("{}:{}-{}", name, lo.line, hi.line)
}

fn expn_str(sp: Span) -> Option<String> {
  if !sp.from_expansion() {
    return None;
  }
  // Collect the chain of expansions, innermost first.
  let mut out = Vec::new();
  let mut cur = sp;
  let mut n = 0;
  while cur.from_expansion() && n < 8 {
    let d = cur.ctxt().outer_expn_data();
    let s = match d.kind {
      rustc_span::ExpnKind::Macro(_, name) => format!("macro:{}", name),
      rustc_span::ExpnKind::Desugaring(k) => format!("desugar:{:?}", k),
      rustc_span::ExpnKind::AstPass(k) => format!("astpass:{:?}", k),
      rustc_span::ExpnKind::Root => "root".to_string(),
    };
    out.push(s);
    cur = d.call_site;
    n += 1;
  }
  Some(out.join("<"))
}

struct Cx<'a, 'tcx> {
  tcx: TyCtxt<'tcx>,
  body: &'a Body<'tcx>,
  def: DefId,
  suffix: String,
}

impl<'a, 'tcx> Cx<'a, 'tcx> {
  fn place(&self, p: &Place<'tcx>) -> String {
    // {"l":N,"s":"rendered","pr":[...]}
    let tcx = self.tcx;
    let mut rendered = format!("_{}", p.local.as_u32());
    let mut pr = String::from("[");
    let mut pty = mir::PlaceTy::from_ty(self.body.local_decls[p.local].ty);
    let mut first = true;
    for elem in p.projection.iter() {
      if !first {
        pr.push(',');
      }
      first = false;
      match elem {
        ProjectionElem::Deref => {
          rendered = format!("(*{})", rendered);
          pr.push_str("[\"deref\"]");
        }
        ProjectionElem::Field(f, fty) => {
          let mut name = format!("{}", f.as_u32());
          match pty.ty.kind() {
            ty::Adt(adt, _) => {
              let vidx = pty.variant_index.unwrap_or(rustc_abi::FIRST_VARIANT);
              if adt.is_enum() || adt.is_struct() || adt.is_union() {
                if let Some(v) = adt.variants().get(vidx) {
                  if let Some(fd) = v.fields.get(f) {
                    name = fd.name.to_string();
                  }
                }
              }
            }
            ty::Closure(did, _) | ty::Coroutine(did, _) | ty::CoroutineClosure(did, _) => {
              if let Some(l) = did.as_local() {
                let caps = tcx.closure_captures(l);
                if let Some(c) = caps.get(f.as_usize()) {
                  name = format!("^{}", c.to_symbol());
                }
              }
            }
            _ => {}
          }
          rendered = format!("{}.{}", rendered, name);
          let _ = write!(pr, "[\"field\",{},{},{}]", f.as_u32(), esc(&name), esc(&ty_str(fty)));
        }
        ProjectionElem::Index(l) => {
          rendered = format!("{}[_{}]", rendered, l.as_u32());
          let _ = write!(pr, "[\"index\",{}]", l.as_u32());
        }
        ProjectionElem::ConstantIndex { offset, min_length, from_end } => {
          rendered = format!("{}[{}{}]", rendered, if from_end { "-" } else { "" }, offset);
          let _ = write!(pr, "[\"cindex\",{},{},{}]", offset, min_length, from_end);
        }
        ProjectionElem::Subslice { from, to, from_end } => {
          rendered = format!("{}[{}..{}{}]", rendered, from, if from_end { "-" } else { "" }, to);
          let _ = write!(pr, "[\"subslice\",{},{},{}]", from, to, from_end);
        }
        ProjectionElem::Downcast(name, vidx) => {
          let n = match name {
            Some(s) => s.to_string(),
            None => match pty.ty.kind() {
              ty::Adt(adt, _) => adt.variant(vidx).name.to_string(),
              _ => format!("{}", vidx.as_u32()),
            },
          };
          rendered = format!("({} as {})", rendered, n);
          let _ = write!(pr, "[\"downcast\",{},{}]", esc(&n), vidx.as_u32());
        }
        ProjectionElem::OpaqueCast(_) => {
          pr.push_str("[\"opaque\"]");
        }
        ProjectionElem::UnwrapUnsafeBinder(_) => {
          pr.push_str("[\"unbinder\"]");
        }
      }
      pty = pty.projection_ty(tcx, elem);
    }
    pr.push(']');
    format!("{{\"l\":{},\"s\":{},\"pr\":{},\"ty\":{}}}", p.local.as_u32(), esc(&rendered), pr, esc(&ty_str(pty.ty)))
  }

  fn const_op(&self, c: &mir::ConstOperand<'tcx>) -> String {
    let tcx = self.tcx;
    let ty = c.const_.ty();
    let mut s = format!("{{\"c\":\"const\",\"ty\":{}", esc(&ty_str(ty)));
    // Function items / closures used as values.
    match ty.kind() {
      ty::FnDef(did, args) => {
        let _ = write!(s, ",\"fn\":{}", self.fnref(*did, args));
      }
      _ => {}
    }
    // Scalar ints.
    let typing_env = ty::TypingEnv::post_analysis(tcx, self.def);
    let is_scalar_ty = ty.is_integral() || ty.is_bool() || ty.is_char();
    if is_scalar_ty {
      if let Some(si) = c.const_.try_eval_scalar_int(tcx, typing_env) {
        let sz = si.size();
        let bits = si.to_bits(sz);
        let v: i128 = if ty.is_signed() { sz.sign_extend(bits) as i128 } else { bits as i128 };
        let _ = write!(s, ",\"int\":{}", v);
      }
    }
    // Named const / static items.
    match c.const_ {
      mir::Const::Unevaluated(uv, _) => {
        let _ = write!(s, ",\"item\":{}", esc(&path_str(tcx, uv.def)));
        if let Some(pidx) = uv.promoted {
          let _ = write!(s, ",\"promoted\":{}", pidx.as_u32());
        }
      }
      _ => {}
    }
    let rendered = with_no_trimmed_paths!(format!("{}", c.const_));
    let rendered = if rendered.len() > 200 { format!("{}…", &rendered.chars().take(200).collect::<String>()) } else { rendered };
    let _ = write!(s, ",\"v\":{}}}", esc(&rendered));
    s
  }

  fn operand(&self, o: &Operand<'tcx>) -> String {
    match o {
      Operand::Copy(p) => format!("{{\"c\":\"copy\",\"p\":{}}}", self.place(p)),
      Operand::Move(p) => format!("{{\"c\":\"move\",\"p\":{}}}", self.place(p)),
      Operand::Constant(c) => self.const_op(c),
      Operand::RuntimeChecks(_) => "{\"c\":\"rtcheck\"}".to_string(),
    }
  }

  fn fnref(&self, did: DefId, args: ty::GenericArgsRef<'tcx>) -> String {
    let tcx = self.tcx;
    let mut s = format!("{{\"path\":{},\"args\":{}", esc(&path_str(tcx, did)), esc(&with_no_trimmed_paths!(format!("{:?}", args))));
    let _ = write!(s, ",\"krate\":{}", esc(tcx.crate_name(did.krate).as_str()));
    // Trait method? record trait + self type.
    if matches!(tcx.def_kind(did), DefKind::AssocFn) {
      if let Some(tr) = tcx.trait_of_assoc(did) {
        let _ = write!(s, ",\"trait\":{}", esc(&path_str(tcx, tr)));
        if args.len() > 0 {
          if let Some(t) = args.get(0).and_then(|a| a.as_type()) {
            let _ = write!(s, ",\"self_ty\":{}", esc(&ty_str(t)));
          }
        }
      } else if let Some(imp) = tcx.impl_of_assoc(did) {
        let st = tcx.type_of(imp).instantiate_identity().skip_norm_wip();
        let _ = write!(s, ",\"impl_self\":{}", esc(&ty_str(st)));
      }
      let _ = write!(s, ",\"name\":{}", esc(tcx.item_name(did).as_str()));
    } else if matches!(tcx.def_kind(did), DefKind::Fn) {
      let _ = write!(s, ",\"name\":{}", esc(tcx.item_name(did).as_str()));
    }
    // Resolution.
    let typing_env = ty::TypingEnv::post_analysis(tcx, self.def);
    let has_infer = args.iter().any(|a| format!("{:?}", a).contains("?"));
    if !has_infer {
      if let Ok(Some(inst)) = ty::Instance::try_resolve(tcx, typing_env, did, args) {
        let rd = inst.def_id();
        let kind = match inst.def {
          ty::InstanceKind::Item(_) => "item",
          ty::InstanceKind::Virtual(..) => "virtual",
          ty::InstanceKind::Intrinsic(_) => "intrinsic",
          ty::InstanceKind::ClosureOnceShim { .. } => "closure_once_shim",
          ty::InstanceKind::FnPtrShim(..) => "fnptr_shim",
          ty::InstanceKind::DropGlue(..) => "drop_glue",
          ty::InstanceKind::CloneShim(..) => "clone_shim",
          ty::InstanceKind::ReifyShim(..) => "reify_shim",
          ty::InstanceKind::VTableShim(..) => "vtable_shim",
          _ => "other",
        };
        let _ = write!(s, ",\"res\":{},\"res_kind\":{}", esc(&path_str(tcx, rd)), esc(kind));
        let _ = write!(s, ",\"res_args\":{}", esc(&with_no_trimmed_paths!(format!("{:?}", inst.args))));
        if rd.is_local() {
          s.push_str(",\"res_local\":true");
        }
      }
    }
    s.push('}');
    s
  }

  fn rvalue(&self, r: &Rvalue<'tcx>) -> String {
    let tcx = self.tcx;
    match r {
      Rvalue::Use(o, _) => format!("{{\"k\":\"use\",\"o\":{}}}", self.operand(o)),
      Rvalue::Repeat(o, _) => format!("{{\"k\":\"repeat\",\"o\":{}}}", self.operand(o)),
      Rvalue::Ref(_, bk, p) => {
        let b = match bk {
          mir::BorrowKind::Shared => "shared",
          mir::BorrowKind::Fake(_) => "fake",
          mir::BorrowKind::Mut { .. } => "mut",
        };
        format!("{{\"k\":\"ref\",\"bk\":\"{}\",\"p\":{}}}", b, self.place(p))
      }
      Rvalue::ThreadLocalRef(d) => format!("{{\"k\":\"tlref\",\"item\":{}}}", esc(&path_str(tcx, *d))),
      Rvalue::RawPtr(k, p) => format!("{{\"k\":\"rawptr\",\"mut\":{},\"p\":{}}}", matches!(k, mir::RawPtrKind::Mut), self.place(p)),
      Rvalue::Cast(ck, o, t) => {
        let from = o.ty(&self.body.local_decls, tcx);
        let ckn = format!("{:?}", ck);
        format!("{{\"k\":\"cast\",\"ck\":{},\"o\":{},\"from\":{},\"to\":{}}}", esc(&ckn), self.operand(o), esc(&ty_str(from)), esc(&ty_str(*t)))
      }
      Rvalue::BinaryOp(op, ab) => {
        let (a, b) = &**ab;
        format!("{{\"k\":\"binop\",\"op\":\"{:?}\",\"a\":{},\"b\":{}}}", op, self.operand(a), self.operand(b))
      }
      Rvalue::UnaryOp(op, o) => format!("{{\"k\":\"unop\",\"op\":\"{:?}\",\"o\":{}}}", op, self.operand(o)),
      Rvalue::Discriminant(p) => format!("{{\"k\":\"discr\",\"p\":{}}}", self.place(p)),
      Rvalue::Aggregate(ak, ops) => {
        let mut s = String::from("{\"k\":\"agg\"");
        match &**ak {
          AggregateKind::Array(_) => s.push_str(",\"ak\":\"array\""),
          AggregateKind::Tuple => s.push_str(",\"ak\":\"tuple\""),
          AggregateKind::Adt(did, vidx, _, _, _) => {
            let adt = tcx.adt_def(*did);
            let v = adt.variant(*vidx);
            let _ = write!(s, ",\"ak\":\"adt\",\"adt\":{},\"variant\":{},\"vidx\":{}", esc(&path_str(tcx, *did)), esc(v.name.as_str()), vidx.as_u32());
            s.push_str(",\"fields\":[");
            for (i, f) in v.fields.iter().enumerate() {
              if i > 0 {
                s.push(',');
              }
              s.push_str(&esc(f.name.as_str()));
            }
            s.push(']');
          }
          AggregateKind::Closure(did, _) => {
            let _ = write!(s, ",\"ak\":\"closure\",\"def\":{}", esc(&path_str(tcx, *did)));
          }
          AggregateKind::Coroutine(did, _) => {
            let _ = write!(s, ",\"ak\":\"coroutine\",\"def\":{}", esc(&path_str(tcx, *did)));
          }
          AggregateKind::CoroutineClosure(did, _) => {
            let _ = write!(s, ",\"ak\":\"coroutine_closure\",\"def\":{}", esc(&path_str(tcx, *did)));
          }
          AggregateKind::RawPtr(..) => s.push_str(",\"ak\":\"rawptr\""),
        }
        s.push_str(",\"ops\":[");
        for (i, o) in ops.iter().enumerate() {
          if i > 0 {
            s.push(',');
          }
          s.push_str(&self.operand(o));
        }
        s.push_str("]}");
        s
      }
      Rvalue::CopyForDeref(p) => format!("{{\"k\":\"copyderef\",\"p\":{}}}", self.place(p)),
      Rvalue::WrapUnsafeBinder(o, _) => format!("{{\"k\":\"use\",\"o\":{}}}", self.operand(o)),
    }
  }

  fn src(&self, sp: Span) -> String {
    let mut s = format!("\"sp\":{}", esc(&span_str(self.tcx, sp)));
    if let Some(e) = expn_str(sp) {
      let _ = write!(s, ",\"exp\":{}", esc(&e));
    }
    s
  }

  fn unwind(&self, u: &UnwindAction) -> String {
    match u {
      UnwindAction::Cleanup(b) => format!("{}", b.as_u32()),
      _ => "null".to_string(),
    }
  }

  fn bb(&self, b: BasicBlock) -> u32 {
    b.as_u32()
  }

  fn body_json(&self) -> String {
    let tcx = self.tcx;
    let body = self.body;
    let def = self.def;
    let mut s = String::with_capacity(1 << 16);
    let dk = tcx.def_kind(def);
    let kind = match dk {
      DefKind::Closure => {
        if tcx.is_coroutine(def) {
          match tcx.coroutine_kind(def) {
            Some(k) => format!("coroutine:{:?}", k),
            None => "coroutine".to_string(),
          }
        } else {
          "closure".to_string()
        }
      }
      DefKind::Fn => "fn".to_string(),
      DefKind::AssocFn => "assoc_fn".to_string(),
      other => format!("{:?}", other),
    };
    let _ = write!(s, "{{\"k\":\"body\",\"path\":{},\"kind\":{}", esc(&format!("{}{}", path_str(tcx, def), self.suffix)), esc(&kind));
    let parent = tcx.opt_parent(def);
    if let Some(p) = parent {
      if matches!(dk, DefKind::Closure) {
        let _ = write!(s, ",\"parent\":{}", esc(&path_str(tcx, p)));
      }
    }
    // impl info from the typeck root.
    let root = tcx.typeck_root_def_id(def);
    let _ = write!(s, ",\"root\":{}", esc(&path_str(tcx, root)));
    if matches!(tcx.def_kind(root), DefKind::AssocFn) {
      let _ = write!(s, ",\"name\":{}", esc(tcx.item_name(root).as_str()));
      if let Some(imp) = tcx.impl_of_assoc(root) {
        let st = tcx.type_of(imp).instantiate_identity().skip_norm_wip();
        let _ = write!(s, ",\"impl_self\":{}", esc(&ty_str(st)));
        if let Some(tr) = tcx.impl_opt_trait_ref(imp) {
          let tr = tr.instantiate_identity().skip_norm_wip();
          let _ = write!(s, ",\"impl_trait\":{}", esc(&path_str(tcx, tr.def_id)));
        }
      } else if let Some(tr) = tcx.trait_of_assoc(root) {
        let _ = write!(s, ",\"in_trait\":{}", esc(&path_str(tcx, tr)));
      }
    } else if matches!(tcx.def_kind(root), DefKind::Fn) {
      let _ = write!(s, ",\"name\":{}", esc(tcx.item_name(root).as_str()));
    }
    let _ = write!(s, ",\"span\":{},\"argc\":{}", esc(&span_lines(tcx, body.span)), body.arg_count);
    // locals
    s.push_str(",\"locals\":[");
    for (i, (_l, d)) in body.local_decls.iter_enumerated().enumerate() {
      if i > 0 {
        s.push(',');
      }
      let _ = write!(s, "{}", esc(&ty_str(d.ty)));
    }
    s.push(']');
    // debug info
    s.push_str(",\"debug\":[");
    let mut first = true;
    for v in body.var_debug_info.iter() {
      if let mir::VarDebugInfoContents::Place(p) = &v.value {
        if !first {
          s.push(',');
        }
        first = false;
        let _ = write!(s, "{{\"name\":{},\"p\":{}}}", esc(v.name.as_str()), self.place(p));
      }
    }
    s.push(']');
    // blocks
    s.push_str(",\"blocks\":[");
    for (bi, (_bb, data)) in body.basic_blocks.iter_enumerated().enumerate() {
      if bi > 0 {
        s.push(',');
      }
      s.push_str("{\"st\":[");
      let mut firsts = true;
      for st in data.statements.iter() {
        let j = match &st.kind {
          StatementKind::Assign(b) => {
            let (p, r) = &**b;
            Some(format!("{{\"k\":\"assign\",\"p\":{},\"r\":{},{}}}", self.place(p), self.rvalue(r), self.src(st.source_info.span)))
          }
          StatementKind::SetDiscriminant { place, variant_index } => {
            Some(format!("{{\"k\":\"setdisc\",\"p\":{},\"vidx\":{},{}}}", self.place(place), variant_index.as_u32(), self.src(st.source_info.span)))
          }
          StatementKind::StorageDead(l) => Some(format!("{{\"k\":\"dead\",\"l\":{}}}", l.as_u32())),
          StatementKind::StorageLive(l) => Some(format!("{{\"k\":\"live\",\"l\":{}}}", l.as_u32())),
          _ => None,
        };
        if let Some(j) = j {
          if !firsts {
            s.push(',');
          }
          firsts = false;
          s.push_str(&j);
        }
      }
      s.push_str("],\"t\":");
      let term = data.terminator();
      let src = self.src(term.source_info.span);
      let t = match &term.kind {
        TerminatorKind::Goto { target } => format!("{{\"k\":\"goto\",\"t\":{},{}}}", self.bb(*target), src),
        TerminatorKind::SwitchInt { discr, targets } => {
          let mut ts = String::from("[");
          for (i, (v, b)) in targets.iter().enumerate() {
            if i > 0 {
              ts.push(',');
            }
            let _ = write!(ts, "[{},{}]", v, b.as_u32());
          }
          ts.push(']');
          let dty = discr.ty(&body.local_decls, tcx);
          format!("{{\"k\":\"switch\",\"d\":{},\"dty\":{},\"targets\":{},\"otherwise\":{},{}}}", self.operand(discr), esc(&ty_str(dty)), ts, targets.otherwise().as_u32(), src)
        }
        TerminatorKind::UnwindResume => format!("{{\"k\":\"resume\",{}}}", src),
        TerminatorKind::UnwindTerminate(_) => format!("{{\"k\":\"terminate\",{}}}", src),
        TerminatorKind::Return => format!("{{\"k\":\"return\",{}}}", src),
        TerminatorKind::Unreachable => format!("{{\"k\":\"unreachable\",{}}}", src),
        TerminatorKind::Drop { place, target, unwind, .. } => {
          let pt = place.ty(&body.local_decls, tcx).ty;
          format!("{{\"k\":\"drop\",\"p\":{},\"ty\":{},\"t\":{},\"u\":{},{}}}", self.place(place), esc(&ty_str(pt)), target.as_u32(), self.unwind(unwind), src)
        }
        TerminatorKind::Call { func, args, destination, target, unwind, fn_span, .. } => {
          let f = match func {
            Operand::Constant(c) => match c.const_.ty().kind() {
              ty::FnDef(did, ga) => format!("{{\"kind\":\"def\",\"fn\":{}}}", self.fnref(*did, ga)),
              _ => format!("{{\"kind\":\"const\",\"o\":{}}}", self.const_op(c)),
            },
            other => {
              let fty = other.ty(&body.local_decls, tcx);
              format!("{{\"kind\":\"ptr\",\"o\":{},\"ty\":{}}}", self.operand(other), esc(&ty_str(fty)))
            }
          };
          let mut a = String::from("[");
          for (i, sp) in args.iter().enumerate() {
            if i > 0 {
              a.push(',');
            }
            a.push_str(&self.operand(&sp.node));
          }
          a.push(']');
          let tgt = match target {
            Some(b) => format!("{}", b.as_u32()),
            None => "null".to_string(),
          };
          format!(
            "{{\"k\":\"call\",\"f\":{},\"args\":{},\"dest\":{},\"t\":{},\"u\":{},\"fsp\":{},{}}}",
            f,
            a,
            self.place(destination),
            tgt,
            self.unwind(unwind),
            esc(&span_str(tcx, *fn_span)),
            src
          )
        }
        TerminatorKind::TailCall { .. } => format!("{{\"k\":\"tailcall\",{}}}", src),
        TerminatorKind::Assert { cond, expected, msg, target, unwind } => {
          let m = format!("{:?}", msg);
          let kind = m.split('(').next().unwrap_or("").to_string();
          format!(
            "{{\"k\":\"assert\",\"cond\":{},\"expected\":{},\"msg\":{},\"ak\":{},\"t\":{},\"u\":{},{}}}",
            self.operand(cond),
            expected,
            esc(&m.chars().take(160).collect::<String>()),
            esc(&kind),
            target.as_u32(),
            self.unwind(unwind),
            src
          )
        }
        TerminatorKind::Yield { value, resume, resume_arg, drop } => {
          let d = match drop {
            Some(b) => format!("{}", b.as_u32()),
            None => "null".to_string(),
          };
          format!("{{\"k\":\"yield\",\"v\":{},\"t\":{},\"drop\":{},\"resume_arg\":{},{}}}", self.operand(value), resume.as_u32(), d, self.place(resume_arg), src)
        }
        TerminatorKind::CoroutineDrop => format!("{{\"k\":\"coroutine_drop\",{}}}", src),
        TerminatorKind::FalseEdge { real_target, imaginary_target } => {
          format!("{{\"k\":\"goto\",\"t\":{},\"imag\":{},{}}}", real_target.as_u32(), imaginary_target.as_u32(), src)
        }
        TerminatorKind::FalseUnwind { real_target, unwind } => {
          format!("{{\"k\":\"goto\",\"t\":{},\"u\":{},\"false_unwind\":true,{}}}", real_target.as_u32(), self.unwind(unwind), src)
        }
        TerminatorKind::InlineAsm { targets, .. } => {
          let ts: Vec<String> = targets.iter().map(|b| format!("{}", b.as_u32())).collect();
          format!("{{\"k\":\"asm\",\"targets\":[{}],{}}}", ts.join(","), src)
        }
      };
      s.push_str(&t);
      let _ = write!(s, ",\"cleanup\":{}}}", data.is_cleanup);
    }
    s.push_str("]}");
    s
  }
}

fn capture_one<'tcx>(tcx: TyCtxt<'tcx>, def: LocalDefId) {
  {
    let mut seen = SEEN.lock().unwrap();
    let idx = def.local_def_index.as_u32();
    if seen.contains(&idx) {
      return;
    }
    seen.push(idx);
  }
  let dk = tcx.def_kind(def);
  // module-level const/static initialisers are bodies too (dispatch tables live there); consts nested in
  // functions (tracing callsites) share one path and are skipped
  let top_const = matches!(dk, DefKind::Const { .. } | DefKind::Static { .. }) && matches!(tcx.def_kind(tcx.local_parent(def)), DefKind::Mod);
  if !matches!(dk, DefKind::Fn | DefKind::AssocFn | DefKind::Closure) && !top_const {
    return;
  }
  if !tcx.is_mir_available(def.to_def_id()) && !tcx.hir_maybe_body_owned_by(def).is_some() {
    return;
  }
  let (steal, promoted) = tcx.mir_promoted(def);
  if steal.is_stolen() {
    eprintln!("verif-driver: mir_promoted already stolen for {}", path_str(tcx, def.to_def_id()));
    return;
  }
  let body = steal.borrow();
  let cx = Cx { tcx, body: &body, def: def.to_def_id(), suffix: String::new() };
  let mut j = cx.body_json();
  if top_const && !promoted.is_stolen() {
    // a table's rows usually live in the initialiser's promoted constants: emit those as bodies of their own
    let pb = promoted.borrow();
    for (idx, pbody) in pb.iter_enumerated() {
      let pcx = Cx { tcx, body: pbody, def: def.to_def_id(), suffix: format!("::promoted[{}]", idx.as_u32()) };
      BODIES.lock().unwrap().push(pcx.body_json());
    }
  }
  // promoted constants: for each, the const items and integer literals it is built from
  if !promoted.is_stolen() {
    let pb = promoted.borrow();
    let mut ps = String::from(",\"promoted\":[");
    for (pi, (_idx, pbody)) in pb.iter_enumerated().enumerate() {
      if pi > 0 {
        ps.push(',');
      }
      let mut items: Vec<String> = Vec::new();
      let mut ints: Vec<String> = Vec::new();
      for bb in pbody.basic_blocks.iter() {
        for st in bb.statements.iter() {
          if let StatementKind::Assign(b) = &st.kind {
            let mut visit = |o: &Operand<'tcx>| {
              if let Operand::Constant(c) = o {
                if let mir::Const::Unevaluated(uv, _) = c.const_ {
                  items.push(esc(&path_str(tcx, uv.def)));
                }
                let ty = c.const_.ty();
                if ty.is_integral() || ty.is_bool() || ty.is_char() {
                  let te = ty::TypingEnv::post_analysis(tcx, def.to_def_id());
                  if let Some(si) = c.const_.try_eval_scalar_int(tcx, te) {
                    let sz = si.size();
                    let bits = si.to_bits(sz);
                    let v: i128 = if ty.is_signed() { sz.sign_extend(bits) as i128 } else { bits as i128 };
                    ints.push(format!("{}", v));
                  }
                }
              }
            };
            match &b.1 {
              Rvalue::Use(o, _) | Rvalue::Repeat(o, _) | Rvalue::Cast(_, o, _) | Rvalue::UnaryOp(_, o) => visit(o),
              Rvalue::BinaryOp(_, ab) => {
                visit(&ab.0);
                visit(&ab.1);
              }
              Rvalue::Aggregate(kind, ops) => {
                for o in ops.iter() {
                  visit(o);
                }
                // a field-less enum variant / unit struct used as a constant (`x != Phase::Lingering`)
                if ops.is_empty() {
                  if let AggregateKind::Adt(did, vidx, _, _, _) = &**kind {
                    let adt = tcx.adt_def(*did);
                    let v = adt.variant(*vidx);
                    if adt.is_enum() {
                      items.push(esc(&format!("{}::{}", path_str(tcx, *did), v.name)));
                    } else {
                      items.push(esc(&path_str(tcx, *did)));
                    }
                  }
                }
              }
              _ => {}
            }
          }
        }
      }
      let _ = write!(ps, "{{\"items\":[{}],\"ints\":[{}]}}", items.join(","), ints.join(","));
    }
    ps.push(']');
    // splice before the closing brace of the body object
    j.pop();
    j.push_str(&ps);
    j.push('}');
  }
  BODIES.lock().unwrap().push(j);
}

fn capture<'tcx>(tcx: TyCtxt<'tcx>, def: LocalDefId) {
  capture_one(tcx, def);
  for nested in tcx.nested_bodies_within(def).iter() {
    capture_one(tcx, nested);
  }
}

fn item_facts<'tcx>(tcx: TyCtxt<'tcx>, out: &mut Vec<String>) {
  // ADTs, impls, consts, fns of the local crate.
  for id in tcx.hir_free_items() {
    let did = id.owner_id.to_def_id();
    match tcx.def_kind(did) {
      DefKind::Struct | DefKind::Enum | DefKind::Union => {
        let adt = tcx.adt_def(did);
        let mut s = format!(
          "{{\"k\":\"adt\",\"path\":{},\"kind\":\"{}\",\"span\":{},\"variants\":[",
          esc(&path_str(tcx, did)),
          if adt.is_enum() { "enum" } else if adt.is_union() { "union" } else { "struct" },
          esc(&span_lines(tcx, tcx.def_span(did)))
        );
        for (i, v) in adt.variants().iter().enumerate() {
          if i > 0 {
            s.push(',');
          }
          let _ = write!(s, "{{\"name\":{},\"fields\":[", esc(v.name.as_str()));
          for (j, f) in v.fields.iter().enumerate() {
            if j > 0 {
              s.push(',');
            }
            let fty = tcx.type_of(f.did).instantiate_identity().skip_norm_wip();
            let _ = write!(s, "{{\"name\":{},\"ty\":{}}}", esc(f.name.as_str()), esc(&ty_str(fty)));
          }
          s.push_str("]}");
        }
        s.push_str("]}");
        out.push(s);
      }
      DefKind::Impl { of_trait } => {
        let st = tcx.type_of(did).instantiate_identity().skip_norm_wip();
        let mut s = format!("{{\"k\":\"impl\",\"self_ty\":{},\"span\":{}", esc(&ty_str(st)), esc(&span_lines(tcx, tcx.def_span(did))));
        if let ty::Adt(a, _) = st.kind() {
          let _ = write!(s, ",\"self_adt\":{}", esc(&path_str(tcx, a.did())));
        }
        if of_trait {
          if let Some(tr) = tcx.impl_opt_trait_ref(did) {
            let tr = tr.instantiate_identity().skip_norm_wip();
            let _ = write!(s, ",\"trait\":{}", esc(&path_str(tcx, tr.def_id)));
          }
        }
        s.push_str(",\"items\":[");
        let mut first = true;
        for it in tcx.associated_items(did).in_definition_order() {
          let Some(itname) = it.opt_name() else { continue };
          if !first {
            s.push(',');
          }
          first = false;
          let _ = write!(s, "{{\"name\":{},\"path\":{},\"fn\":{}", esc(itname.as_str()), esc(&path_str(tcx, it.def_id)), it.is_fn());
          if let Some(t) = it.trait_item_def_id() {
            let _ = write!(s, ",\"trait_item\":{}", esc(&path_str(tcx, t)));
          }
          s.push('}');
        }
        s.push_str("]}");
        out.push(s);
      }
      DefKind::Const { .. } | DefKind::Static { .. } => {
        let t = tcx.type_of(did).instantiate_identity().skip_norm_wip();
        let mut s = format!("{{\"k\":\"const\",\"path\":{},\"ty\":{},\"span\":{}", esc(&path_str(tcx, did)), esc(&ty_str(t)), esc(&span_lines(tcx, tcx.def_span(did))));
        if matches!(tcx.def_kind(did), DefKind::Const { .. }) && (t.is_integral() || t.is_bool() || t.is_char()) && tcx.generics_of(did).is_empty() {
          if let Ok(v) = tcx.const_eval_poly(did) {
            if let Some(si) = v.try_to_scalar_int() {
              let sz = si.size();
              let bits = si.to_bits(sz);
              let iv: i128 = if t.is_signed() { sz.sign_extend(bits) as i128 } else { bits as i128 };
              let _ = write!(s, ",\"int\":{}", iv);
            }
          }
        }
        s.push('}');
        out.push(s);
      }
      DefKind::Fn => {
        let vis = tcx.visibility(did);
        out.push(format!(
          "{{\"k\":\"fn\",\"path\":{},\"span\":{},\"public\":{}}}",
          esc(&path_str(tcx, did)),
          esc(&span_lines(tcx, tcx.def_span(did))),
          vis.is_public()
        ));
      }
      DefKind::Trait => {
        let mut s = format!("{{\"k\":\"trait\",\"path\":{},\"items\":[", esc(&path_str(tcx, did)));
        let mut first = true;
        for it in tcx.associated_items(did).in_definition_order() {
          let Some(itname) = it.opt_name() else { continue };
          if !first {
            s.push(',');
          }
          first = false;
          let _ = write!(s, "{{\"name\":{},\"path\":{},\"fn\":{},\"has_default\":{}}}", esc(itname.as_str()), esc(&path_str(tcx, it.def_id)), it.is_fn(), it.defaultness(tcx).has_value());
        }
        s.push_str("]}");
        out.push(s);
      }
      _ => {}
    }
  }
}

struct Cb {
  out: Option<String>,
}

impl rustc_driver::Callbacks for Cb {
  fn config(&mut self, config: &mut rustc_interface::interface::Config) {
    if self.out.is_none() {
      return;
    }
    config.override_queries = Some(|_sess, providers| {
      providers.queries.mir_borrowck = |tcx, def| {
        capture(tcx, def);
        let mut p = rustc_middle::util::Providers::default();
        rustc_borrowck::provide(&mut p.queries);
        (p.queries.mir_borrowck)(tcx, def)
      };
    });
  }

  fn after_analysis<'tcx>(&mut self, _compiler: &rustc_interface::interface::Compiler, tcx: TyCtxt<'tcx>) -> rustc_driver::Compilation {
    if let Some(out) = &self.out {
      let mut lines: Vec<String> = Vec::new();
      item_facts(tcx, &mut lines);
      let bodies = std::mem::take(&mut *BODIES.lock().unwrap());
      let nb = bodies.len();
      lines.extend(bodies);
      lines.push(format!("{{\"k\":\"trailer\",\"bodies\":{},\"crate\":{}}}", nb, esc(tcx.crate_name(rustc_hir::def_id::LOCAL_CRATE).as_str())));
      let mut data = lines.join("\n");
      data.push('\n');
      let tmp = format!("{}.tmp", out);
      std::fs::write(&tmp, data).expect("write facts");
      std::fs::rename(&tmp, out).expect("rename facts");
    }
    rustc_driver::Compilation::Continue
  }
}

fn main() {
  let mut args: Vec<String> = std::env::args().skip(1).collect();
  if args.is_empty() {
    eprintln!("usage: driver <rustc> <args>");
    std::process::exit(2);
  }
  let want_crate = std::env::var("VERIF_FACTS_CRATE").unwrap_or_else(|_| "rzmq".to_string());
  let mut crate_name = None;
  let mut is_lib = false;
  let mut is_test = false;
  let mut i = 0;
  while i < args.len() {
    if args[i] == "--crate-name" && i + 1 < args.len() {
      crate_name = Some(args[i + 1].clone());
    }
    if args[i] == "--crate-type" && i + 1 < args.len() && (args[i + 1].contains("lib")) {
      is_lib = true;
    }
    if args[i] == "--test" {
      is_test = true;
    }
    i += 1;
  }
  let out = match (std::env::var("VERIF_FACTS_OUT"), crate_name) {
    (Ok(o), Some(c)) if c == want_crate && is_lib && !is_test => Some(o),
    _ => None,
  };
  if out.is_some() {
    // Facts need unoptimised MIR with every body present.
    args.push("-Zmir-opt-level=0".to_string());
  }
  let mut cb = Cb { out };
  rustc_driver::run_compiler(&args, &mut cb);
}
