"""C08 — a receiver never sleeps while a message is queued for it (no lost wake-ups).

Decides that the code has the protocol shape the lost-wake-up argument rests on;
the interleaving argument itself is not a static fact."""
import re

from rules import common
from vlib.util import where, short

RACED = {
    ("<ReqSocket as ISocket>::recv::{closure#0}", "reply_available_notifier"): "REQ recv races the notifier with ingress_engine.recv_logical_message(RCVTIMEO); the notifier only aborts a recv whose state was reset",
    ("<DealerSocket as ISocket>::send_multipart::{closure#0}", "completion_notifier"): "DEALER multipart send waits for a prior transaction, raced with a 50 ms is_running() poll and SNDTIMEO (not a receiver path)",
}


def r3(chk):
    r = chk.rule("R3", "check-then-wait on Notify", "T6",
                 "a waiter that evaluates a condition and then awaits Notify::notified() must have enable()d the future before the check whenever a waker uses notify_waiters()")
    common.rule_check_then_wait(chk, r, raced_table=RACED)
    for cfg, _ in chk.configs():
        r.require(cfg, 8, "Notify waiters")


def run(chk):
    chk.undecided = ["absence of lost wake-ups over all interleavings of the atomic steps (needs an enumerating scheduler)", "ready-list capacity >= number of pipes at run time"]
    r3(chk)


# ---------------------------------------------------------------------------
# R1 / R2: producer / consumer protocol of ReadyPipeQueue
# ---------------------------------------------------------------------------
from vlib.mir import Guard
from vlib.util import norm_cmp, interval, INF


def _discr_edges(body, rx_prov, ty_prefix, label):
    out = set()
    for s in range(body.n):
        t = body.term(s)
        if t["k"] != "switch":
            continue
        a, _ = body.cond_atom(t["d"])
        if a[0] == "discr" and a[2].startswith(ty_prefix) and re.search(rx_prov, a[1]):
            out.add((s, body.label_for(s, label)))
    return out


def _cmp_edges_on(body, local):
    """[(switch, label, (lo,hi))] for switches comparing `local` (through copies) with a constant"""
    out = []
    for s in range(body.n):
        t = body.term(s)
        if t["k"] != "switch" or t["dty"] != "bool":
            continue
        a, pol = body.cond_atom(t["d"])
        if a[0] != "cmp":
            continue
        involved = False
        for o in (a[2], a[3]):
            org = body.value_origin(o)
            if org[0] == "call" and org[1].dest["l"] == local:
                involved = True
            if o["c"] in ("copy", "move") and o["p"]["l"] == local:
                involved = True
        if not involved:
            continue
        for lab in [v for v, _ in t["targets"]] + ["otherwise"]:
            g = Guard(body, s, lab)
            nc = norm_cmp(body, g)
            if nc and isinstance(nc[2], int):
                out.append((s, lab, interval(nc[1], nc[2])))
    return out


def _flag_sets(body, edge_target_blocks):
    """bool locals assigned `const true` inside the given region"""
    flags = set()
    for b in edge_target_blocks:
        for st in body.blocks[b]["st"]:
            if st["k"] == "assign" and not st["p"]["pr"] and st["r"]["k"] == "use" and st["r"]["o"].get("int") == 1 and st["r"]["o"].get("ty") == "bool":
                flags.add(st["p"]["l"])
    return flags


def r1_producer(chk, rid="R1"):
    r = chk.rule(rid, "producer protocol of ReadyPipeQueue", "T3 guarded-by + T4 must-pass-through + T9 constants",
                 "at every queued_count.fetch_add: the channel write succeeded first, the increment is 1, and the pipe is put on the ready list iff the previous count was 0")
    for cfg, prog in chk.configs():
        for body in prog.bodies.values():
            if "ready_pipe_queue" not in body.path or "::tests" in body.path or "_tests::" in body.path:
                continue
            for c in body.calls:
                if not (c.matches(r"atomic::Atomic::fetch_add$") and (c.recv() or "").endswith(".queued_count")):
                    continue
                base = "%s|queued_count.fetch_add" % short(body.path)
                # (a) channel write first
                succ_edges = _discr_edges(body, r"BoundedAsyncSender::(try_send|send)\(", "std::result::Result<", 0) | \
                    _discr_edges(body, r"BoundedAsyncSender::(try_send|send)\(", "std::ops::ControlFlow<", 0)
                # removing the success edges must disconnect the increment
                reach = body.reachable([0], avoid_edges=succ_edges)
                if not succ_edges or c.blk in reach:
                    r.bad(cfg, base + "|after channel write", where(body, c.blk), "queued_count is incremented on a path that has not seen the per-pipe channel write succeed: the consumer can observe count>0 with an empty channel (or miss the item)")
                else:
                    r.ok(cfg, base + "|after channel write", where(body, c.blk), "every path to the increment takes a success edge of tx.try_send/tx.send")
                # (b) +1
                if body.const_int(c.args[1]) == 1:
                    r.ok(cfg, base + "|adds 1", where(body, c.blk))
                else:
                    r.bad(cfg, base + "|adds 1", where(body, c.blk), "queued_count incremented by something other than the constant 1")
                # (c) arm iff prev == 0
                prev = c.dest["l"]
                cmps = _cmp_edges_on(body, prev)
                zero_edges = [(s, lab) for s, lab, iv in cmps if iv == (0, 0)]
                arms = [a for a in body.calls if a.matches(r"mpmc(_v2)?::AsyncSender::(send|try_send)$") and "ready_tx" in (a.recv() or "")]
                if not zero_edges:
                    r.bad(cfg, base + "|arm iff prev==0", where(body, c.blk), "no branch on `previous count == 0` after the increment (found comparisons: %s)" % [iv for _, _, iv in cmps])
                    continue
                # region under the prev==0 edge: either arms directly or sets a flag that guards the arm
                ok_all = True
                why = ""
                for s, lab in zero_edges:
                    tgt = [tb for tb, l2 in body.edges(s) if l2 == lab]
                    direct = [a for a in arms if body.edge_dominates(s, lab, a.blk)]
                    flags = _flag_sets(body, body.reachable(tgt, avoid_blocks=[c.blk]) & set(b for b in range(body.n) if body.edge_dominates(s, lab, b)))
                    if direct:
                        # all arms must be under this edge, and every normal path from the edge to a return passes an arm
                        others = [a for a in arms if not body.edge_dominates(s, lab, a.blk)]
                        r2 = body.reachable(tgt, avoid_blocks=[a.blk for a in direct])
                        rets = [b for b in r2 if body.term(b)["k"] == "return"]
                        # error returns from a failed arm (`?`) come after the arm call and are not in r2
                        if others:
                            ok_all, why = False, "ready list armed outside the prev==0 branch at %s" % others[0].sp
                        elif rets:
                            ok_all, why = False, "a path from prev==0 reaches return without arming the ready list"
                    elif flags:
                        fl = list(flags)[0]
                        # flag must only be set under a zero edge, and arm guarded by flag true and on all paths
                        sets_elsewhere = False
                        for b, i, st in body.statements():
                            if st["k"] == "assign" and st["p"]["l"] == fl and not st["p"]["pr"] and st["r"]["k"] == "use" and st["r"]["o"].get("int") == 1:
                                if not any(body.edge_dominates(s2, l2, b) for s2, l2 in zero_edges):
                                    sets_elsewhere = True
                        fl_sw = []
                        for s3 in range(body.n):
                            t3 = body.term(s3)
                            if t3["k"] == "switch" and t3["d"]["c"] in ("copy", "move"):
                                org = body.value_origin(t3["d"])
                                if org[0] == "place" and org[1]["l"] == fl or (t3["d"]["p"]["l"] == fl):
                                    fl_sw.append(s3)
                        armed = [a for a in arms if any(body.edge_dominates(s3, body.bool_edge_label(s3, True), a.blk) for s3 in fl_sw)]
                        if sets_elsewhere:
                            ok_all, why = False, "the wake-up flag is also set outside the prev==0 branch"
                        elif not fl_sw or not armed or len(armed) != len(arms):
                            ok_all, why = False, "the wake-up flag set under prev==0 does not guard the ready-list arm"
                        else:
                            # once the 0->1 transition is recorded, every path to a return must come to the test of the flag
                            for b, i, st in body.statements():
                                if st["k"] == "assign" and st["p"]["l"] == fl and not st["p"]["pr"] and st["r"]["k"] == "use" and st["r"]["o"].get("int") == 1:
                                    r4_ = body.reachable([b], avoid_blocks=fl_sw)
                                    if any(body.term(x)["k"] == "return" for x in r4_):
                                        ok_all, why = False, "after the 0->1 transition is recorded a path reaches return without testing the wake-up flag (the ready-list arm is skipped on it)"
                            for s3 in fl_sw:
                                tg = [tb for tb, l3 in body.edges(s3) if l3 == body.bool_edge_label(s3, True)]
                                r3_ = body.reachable(tg, avoid_blocks=[a.blk for a in armed])
                                if any(body.term(b)["k"] == "return" for b in r3_):
                                    ok_all, why = False, "flag set but a path returns without arming"
                    else:
                        ok_all, why = False, "the prev==0 branch neither arms the ready list nor records the transition"
                if ok_all:
                    r.ok(cfg, base + "|arm iff prev==0", where(body, c.blk), "ready list armed exactly under previous==0 (%d arm site(s))" % len(arms))
                else:
                    r.bad(cfg, base + "|arm iff prev==0", where(body, c.blk), why + ": a 0->1 transition without a ready-list entry leaves a queued message invisible to recv(); an entry without a transition duplicates ready entries")
        r.require(cfg, 12, "producer obligations (4 fetch_add sites x 3)")


def r2_consumer(chk):
    r = chk.rule("R2", "consumer protocol of ReadyPipeQueue", "T3 guarded-by + T9 constants",
                 "at every queued_count.fetch_sub: an item was dequeued first, the pipe is re-armed iff the previous count was > 1, the reservation is released on the same path")
    for cfg, prog in chk.configs():
        # a helper that only performs the decrement(s) and returns the previous count is treated as the decrement itself
        # at its call sites (one level of summarisation: "a wrapper is A when all its paths perform A")
        wrappers = {}
        for wb in prog.bodies.values():
            if "ready_pipe_queue" not in wb.path or "::tests" in wb.path or "_tests::" in wb.path or wb.kind not in ("fn", "assoc_fn"):
                continue
            subs = [x for x in wb.calls if x.matches(r"atomic::Atomic::fetch_sub$") and (x.recv() or "").endswith(".queued_count")]
            if len(subs) != 1 or any(x.matches(r"try_recv|AsyncSender::(send|try_send)$") for x in wb.calls):
                continue
            sub = subs[0]
            ret = wb.data_slice({"c": "copy", "p": {"l": 0, "pr": [], "s": "", "ty": ""}})
            if any(x[0] == "call" and x[1].endswith("fetch_sub") for x in ret) and all(wb.dominates(sub.blk, rb) for rb in wb.returns()):
                wrappers[__import__("vlib.mir", fromlist=["strip_generics"]).strip_generics(wb.path)] = (wb, sub)
        for body in prog.bodies.values():
            if "ready_pipe_queue" not in body.path or "::tests" in body.path or "_tests::" in body.path:
                continue
            if __import__("vlib.mir", fromlist=["strip_generics"]).strip_generics(body.path) in wrappers:
                continue
            for c in body.calls:
                direct_site = c.matches(r"atomic::Atomic::fetch_sub$") and (c.recv() or "").endswith(".queued_count")
                if not direct_site and c.callee not in wrappers:
                    continue
                sub_body, sub = (body, c) if direct_site else wrappers[c.callee]
                base = "%s|queued_count.fetch_sub" % short(body.path)
                ok_edges = _discr_edges(body, r"BoundedAsyncReceiver::try_recv\(", "std::result::Result<", 0)
                reach = body.reachable([0], avoid_edges=ok_edges)
                if not ok_edges or c.blk in reach:
                    r.bad(cfg, base + "|after dequeue", where(body, c.blk), "queued_count decremented without a successful rx.try_recv(): phantom decrement")
                else:
                    r.ok(cfg, base + "|after dequeue", where(body, c.blk))
                if sub_body.const_int(sub.args[1]) == 1:
                    r.ok(cfg, base + "|subtracts 1", where(body, c.blk))
                else:
                    r.bad(cfg, base + "|subtracts 1", where(body, c.blk), "decrement is not the constant 1")
                # reservation released on the same path
                rel = [x for x in sub_body.calls if x.matches(r"atomic::Atomic::fetch_sub$") and (x.recv() or "").endswith(".reserved_count") and (sub_body.dominates(sub.blk, x.blk) or sub_body.dominates(x.blk, sub.blk))] if sub_body is not body else [x for x in body.calls if x.matches(r"atomic::Atomic::fetch_sub$") and (x.recv() or "").endswith(".reserved_count") and (body.dominates(c.blk, x.blk) or body.dominates(x.blk, c.blk))]
                if rel:
                    r.ok(cfg, base + "|releases reservation", where(body, c.blk))
                else:
                    r.bad(cfg, base + "|releases reservation", where(body, c.blk), "reserved_count is not released together with queued_count: the pipe's capacity accounting leaks")
                prev = c.dest["l"]
                cmps = _cmp_edges_on(body, prev)
                # ignore debug_assert!(prev > 0)
                more = [(s, lab, iv) for s, lab, iv in cmps if iv == (2, INF) and not (body.term(s).get("exp") or "").count("assert")]
                arms = [a for a in body.calls if a.matches(r"mpmc(_v2)?::AsyncSender::(send|try_send)$") and "ready_tx" in (a.recv() or "")]
                if not more:
                    r.bad(cfg, base + "|re-arm iff prev>1", where(body, c.blk), "no branch on `previous count > 1` (canonical: >= 2) after the decrement; comparisons found: %s" % sorted(set(iv for _, _, iv in cmps if iv[0] > 0 or iv[1] < INF)))
                    continue
                good = True
                why = ""
                for s, lab, _ in more:
                    tgt = [tb for tb, l2 in body.edges(s) if l2 == lab]
                    direct = [a for a in arms if body.edge_dominates(s, lab, a.blk)]
                    if not direct or len(direct) != len(arms):
                        good, why = False, "the ready list is re-armed outside the prev>1 branch or not at all"
                        continue
                    r2_ = body.reachable(tgt, avoid_blocks=[a.blk for a in direct])
                    if any(body.term(b)["k"] == "return" for b in r2_):
                        good, why = False, "a path from prev>1 returns without re-arming"
                if good:
                    r.ok(cfg, base + "|re-arm iff prev>1", where(body, c.blk), "re-armed exactly when more committed messages remain")
                else:
                    r.bad(cfg, base + "|re-arm iff prev>1", where(body, c.blk), why + ": remaining messages of this pipe would never be offered to recv() again")
        r.require(cfg, 8, "consumer obligations (2 fetch_sub sites x 4)")
    return r


def run(chk):  # noqa: F811
    chk.undecided = ["absence of lost wake-ups over all interleavings of the atomic steps (needs an enumerating scheduler)", "ready-list capacity >= number of pipes at run time"]
    r1_producer(chk)
    r2_consumer(chk)
    r3(chk)
    r4 = chk.rule("R4", "no counter update of the receive path is decided by a separate load", "T7 atomic check-then-act",
                  "in ReadyPipeQueue, the ingress engines, the ROUTER held-batch gate and WaitGroup no fetch_add/fetch_sub/store is guarded by an earlier plain load() of the same atomic "
                  "(the arm / re-arm decisions must use the value the read-modify-write returns); reviewed exceptions carry their reason")
    common.rule_no_atomic_check_then_act(chk, r4, r"(patterns::ready_pipe_queue|patterns::anonymous_ingress|patterns::addressed_ingress|runtime::waitgroup|socket::router_socket)::",
                                         reviewed={("router_socket::RouterSocket::take_finalized_held", "held_count"): "fast-path emptiness test only; the decrement is tied to the pop done under the held_ingress mutex"},
                                         floor_atomics=25)
