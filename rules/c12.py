"""C12 — SUB delivers exactly the messages its current subscriptions match.

Decides: the subscription reference count shape, that `matches` tests every prefix node, that the
subscriber-side filter guards every enqueue path, and that the PUB distribution path never awaits a
subscriber's full pipe.  Not: matcher == reference on all byte strings."""
import re

from vlib import mir
from vlib.mir import strip_generics, Guard
from vlib.util import where, short, is_plumbing, norm_cmp, interval, INF

TRIE = "socket::patterns::trie::SubscriptionTrie"


def count_ops(body, name):
    return [c for c in body.calls if c.matches(r"atomic::Atomic::%s$" % name) and (c.recv() or "").endswith(".count")]


def r1_refcount(chk):
    r = chk.rule("R1", "subscription reference count shape", "T9 constants + T3",
                 "subscribe adds exactly 1 at the terminal node; unsubscribe is one checked fetch_update(|c| c.checked_sub(1)) after the whole path exists (no unchecked fetch_sub + repair: matches() reads the count concurrently) and returns true iff it took the count from 1 to 0")
    for cfg, prog in chk.configs():
        sub = prog.body(TRIE + "::subscribe")
        uns = prog.body(TRIE + "::unsubscribe")
        if not sub or not uns:
            r.bad(cfg, "anchor|trie", "-", "SubscriptionTrie::subscribe/unsubscribe not found")
            continue
        adds = count_ops(sub, "fetch_add")
        key = "subscribe|+1 once"
        if len(adds) == 1 and sub.const_int(adds[0].args[1]) == 1 and not sub.loops_containing(adds[0].blk) and not count_ops(sub, "fetch_sub"):
            r.ok(cfg, key, where(sub, adds[0].blk))
        else:
            r.bad(cfg, key, where(sub, adds[0].blk if adds else 0), "subscribe must increment the terminal node's count by exactly 1, once (found %d fetch_add)" % len(adds))
        # unsubscribe: one checked, self-validating decrement (the count is read concurrently by matches() under read locks,
        # so it must never leave its valid range, not even between two atomic operations)
        upd = count_ops(uns, "fetch_update")
        plain = count_ops(uns, "fetch_sub") + count_ops(uns, "fetch_add") + count_ops(uns, "store")
        key = "unsubscribe|one checked decrement, after the whole path exists"
        clo_ok = False
        if len(upd) == 1 and len(upd[0].args) >= 4:
            org = uns.value_origin(upd[0].args[3])
            cb = prog.bodies.get(org[1]["r"].get("def")) if org[0] == "agg" and org[1]["r"].get("ak") == "closure" else None
            if cb is not None:
                cs = [c for c in cb.calls if not c.exp]
                clo_ok = len(cs) == 1 and cs[0].name == "checked_sub" and cb.const_int(cs[0].args[1]) == 1 and cb.value_origin({"c": "copy", "p": {"l": 0, "pr": [], "s": "", "ty": ""}})[0] == "call"
        if len(upd) == 1 and clo_ok and not plain and not uns.loops_containing(upd[0].blk):
            r.ok(cfg, key, where(uns, upd[0].blk), "count.fetch_update(|c| c.checked_sub(1))")
        else:
            why = []
            if plain:
                why.append("%d unchecked fetch_sub/fetch_add/store on the count (a decrement repaired afterwards exposes a wrapped count to concurrent matches(): a never-subscribed topic matches, and racing unsubscribes leave it wrapped)" % len(plain))
            if len(upd) != 1:
                why.append("%d fetch_update calls" % len(upd))
            elif not clo_ok:
                why.append("the update closure is not `c.checked_sub(1)`")
            r.bad(cfg, key, where(uns, (plain or upd or [None])[0].blk if (plain or upd) else 0), "; ".join(why))
        key = "unsubscribe|true iff the count went from 1 to 0"
        rets = uns.whole_defs(0)
        eqs = [d for d in rets if d[0] == "assign" and d[3]["r"]["k"] == "binop" and d[3]["r"]["op"] == "Eq"]
        falses = [d for d in rets if d[0] == "assign" and d[3]["r"]["k"] == "use" and d[3]["r"]["o"].get("int") == 0]
        good = len(eqs) == 1 and len(eqs) + len(falses) == len(rets) and uns.const_int(eqs[0][3]["r"]["b"]) == 1
        if good and upd:
            pv = uns.provenance(eqs[0][3]["r"]["a"])
            good = "fetch_update" in pv and "@Ok" in pv
        if good:
            r.ok(cfg, key, where(uns, eqs[0][1]), "returns old == 1 on Ok(old), false otherwise")
        else:
            r.bad(cfg, key, where(uns, 0), "unsubscribe must report `true` exactly when its own decrement took the count from 1 to 0 (found %d returns, %d of the form x == 1)" % (len(rets), len(eqs)))
        r.require(cfg, 3, "refcount obligations")


def r2_matches_every_prefix(chk):
    r = chk.rule("R2", "matches() tests every prefix node", "T3/T9",
                 "`count > 0` is evaluated on the root before the loop, on each node inside the loop before descending, and on the final node")
    for cfg, prog in chk.configs():
        m = prog.body(TRIE + "::matches")
        if not m:
            r.bad(cfg, "anchor|matches", "-", "SubscriptionTrie::matches not found")
            continue
        tests = []
        for b, i, st in m.statements():
            if st["k"] == "assign" and st["r"]["k"] == "binop" and st["r"]["op"] in ("Gt", "Ge", "Ne", "Lt", "Le"):
                pa, pb = m.provenance(st["r"]["a"]), m.provenance(st["r"]["b"])
                if "Atomic::load(" in pa + pb and ".count" in pa + pb:
                    op = st["r"]["op"]
                    ca, cb = m.const_int(st["r"]["a"]), m.const_int(st["r"]["b"])
                    canon = (op == "Gt" and cb == 0) or (op == "Ge" and cb == 1) or (op == "Ne" and cb == 0) or (op == "Lt" and ca == 0) or (op == "Le" and ca == 1)
                    tests.append((b, canon))
        loops = m.loops()
        in_loop = [t for t in tests if any(t[0] in lb for _, lb in loops)]
        before = [t for t in tests if t not in in_loop and any(m.dominates(t[0], h) for h, _ in loops)]
        after = [t for t in tests if t not in in_loop and t not in before]
        for nm, grp in (("root before the loop", before), ("every node inside the loop", in_loop), ("final node after the loop", after)):
            key = "matches|count>0 on %s" % nm
            if grp and all(c for _, c in grp):
                r.ok(cfg, key, where(m, grp[0][0]))
            elif grp:
                r.bad(cfg, key, where(m, grp[0][0]), "the activity test is not `count > 0`")
            else:
                r.bad(cfg, key, where(m, 0), "no `count > 0` test on %s: a subscription that is a proper prefix (or the empty / exact topic) is not honoured" % nm)
        r.require(cfg, 3, "prefix tests in matches()")


def r3_filter_guards_enqueue(chk):
    r = chk.rule("R3", "the subscription filter guards every enqueue path", "T2 siblings + T3",
                 "in PipeMessageSender's FilteredAnonymous arms (send, try_send_sync, try_send_batch) every hand-over to the per-pipe queue is dominated by trie.matches(first frame) == true")
    for cfg, prog in chk.configs():
        adt = prog.facts.adts.get("socket::patterns::ready_pipe_queue::PipeMessageSender")
        vidx = [i for i, v in enumerate(adt["variants"]) if v["name"] == "FilteredAnonymous"][0] if adt else None
        for body in prog.bodies.values():
            if body.impl_self != "socket::patterns::ready_pipe_queue::PipeMessageSender" or body.name not in ("send", "try_send_sync", "try_send_batch") or "::tests" in body.path or body.kind == "closure":
                continue
            for c in body.calls:
                if not c.matches(r"ReadyPipeSender::(send|try_send|try_send_batch)$|spsc::BoundedAsyncSender::(try_send|send)$"):
                    continue
                gs = body.guards(c.blk, select_aware=False)
                filt = any(g.atom[0] == "discr" and g.atom[2].endswith("PipeMessageSender") and g.is_value(vidx, 3) for g in gs)
                if not filt:
                    continue
                key = "%s|%s under filter" % (short(body.path), c.name)
                m = [g for g in gs if g.atom[0] == "call" and g.atom[1].matches(r"SubscriptionTrie::matches$") and g.truth is True]
                if m:
                    topic = body.provenance(m[0].atom[1].args[1]) if len(m[0].atom[1].args) > 1 else ""
                    if "first(" in topic and "data(" in topic or "unwrap_or" in topic:
                        r.ok(cfg, key, where(body, c.blk), "topic = first frame's data")
                    else:
                        r.bad(cfg, key, where(body, c.blk), "the filter is applied to something other than the first frame's data: " + topic[:100])
                else:
                    r.bad(cfg, key, where(body, c.blk), "a batch is enqueued for a filtered (SUB) pipe without passing trie.matches(): unsubscribed topics are delivered")
        r.require(cfg, 3, "filtered enqueue sites")


def r4_pub_never_waits(chk):
    r = chk.rule("R4", "the publisher never waits on a subscriber", "T1 who-may-call",
                 "the PUB distribution path hands messages to subscriber connections only through the non-blocking form")
    blocking = r"ISocketConnection::(send_message|send_multipart|send_multipart_owned)$"
    for cfg, prog in chk.configs():
        n = 0
        for body in prog.bodies.values():
            if not (body.impl_self == "socket::patterns::distributor::Distributor" and body.kind.startswith("coroutine")):
                continue
            for c in body.calls:
                if c.matches(blocking) or (c.trait == "socket::connection_iface::ISocketConnection" and c.name in ("send_message", "send_multipart", "send_multipart_owned")):
                    n += 1
                    r.bad(cfg, "%s|awaits %s per subscriber" % (short(body.path), c.name), where(body, c.blk),
                          "Distributor awaits the blocking `%s` on each subscriber in turn: with PUB's default SNDTIMEO=-1 a stalled subscriber's full pipe delays the publisher and every other subscriber" % c.name)
                elif c.trait == "socket::connection_iface::ISocketConnection" and c.name.startswith("try_send"):
                    n += 1
                    r.ok(cfg, "%s|%s" % (short(body.path), c.name), where(body, c.blk), "non-blocking hand-off")
        r.require(cfg, 2, "per-subscriber hand-off sites in Distributor")


def run(chk):
    chk.undecided = ["matcher == `exists s in subs: topic.starts_with(s)` on all byte strings (value-level)", "ordering / duplicates end-to-end"]
    r1_refcount(chk)
    r2_matches_every_prefix(chk)
    r3_filter_guards_enqueue(chk)
    r4_pub_never_waits(chk)
    from rules import common
    r5 = chk.rule("R5", "no subscription count update is decided by a separate load", "T7 atomic check-then-act",
                  "in SubscriptionTrie no fetch_add/fetch_sub/store on a node count is guarded by an earlier plain load() of that count: subscribe/unsubscribe run under read locks, so two callers would both pass the load")
    common.rule_no_atomic_check_then_act(chk, r5, r"patterns::trie::", floor_atomics=6)
    # a matching message that was enqueued must become visible to recv(): producer protocol of the (filtered) ingress queue = C08 R1
    from rules import c08
    c08.r1_producer(chk, rid="R6")

