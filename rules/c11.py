"""C11 — ROUTER addresses by true peer identity; envelopes round-trip unchanged.

Decides: the identity gate cannot be bypassed, both routing maps change together, unroutable
exits honour ROUTER_MANDATORY, delimiter insertion and removal use the same index."""
import re

from vlib import mir
from vlib.mir import strip_generics
from vlib.util import where, short, is_plumbing


def r1_identity_gate(chk):
    r = chk.rule("R1", "the identity gate cannot be bypassed", "T1 who-may-call + T3 guarded-by",
                 "RouterSocket reads its ingress queue only inside recv_logical_finalized, and a freshly popped batch is returned only when its pipe is finalized and nothing older is still held")
    for cfg, prog in chk.configs():
        gate = None
        for body in prog.bodies.values():
            if body.impl_self != "socket::router_socket::RouterSocket" or "::tests" in body.path:
                continue
            for c in body.calls:
                if not c.matches(r"AddressedIngressEngine::(recv_logical_message|pop|try_pop|recv)$"):
                    continue
                fn = body.name
                key = "%s|reads ingress queue" % short(body.root)
                if fn == "recv_logical_finalized":
                    r.ok(cfg, key, where(body, c.blk))
                else:
                    r.bad(cfg, key, where(body, c.blk), "`%s` pulls batches from the ingress queue outside the identity gate: a peer's first message could be delivered under a placeholder identity" % fn)
            if body.name == "recv_logical_finalized" and body.kind.startswith("coroutine") and "{closure#0}" in body.path and body.path.count("closure") == 1:
                gate = body
        if gate is None:
            r.bad(cfg, "anchor|recv_logical_finalized", "-", "gate function not found")
            continue
        # Ok((pid, batch)) returns of fresh batches: aggregates Result::Ok whose payload tuple does not come from take_finalized_held
        for b, i, st in gate.aggregates():
            if st["r"].get("variant") != "Ok" or not st["r"].get("adt", "").endswith("result::Result"):
                continue
            o0 = st["r"]["ops"][0]
            ty = o0["p"]["ty"] if o0["c"] in ("copy", "move") else ""
            if "FrameBatch" not in ty:
                continue  # Ok(()) of an inner future etc.
            sl = gate.data_slice(o0)
            from_held = any(x[0] == "call" and x[1].endswith("take_finalized_held") for x in sl)
            from_queue = any(x[0] == "call" and re.search(r"AddressedIngressEngine::(recv_logical_message|pop|try_pop|recv)", x[1]) for x in sl) or any(x[0] == "yield" for x in sl)
            if from_held and not from_queue:
                r.ok(cfg, "%s|returns held batch" % short(gate.path), where(gate, b), "released by take_finalized_held()")
                continue
            gs = gate.guards(b)
            fin = any(g.atom[0] == "call" and g.atom[1].matches(r"DashMap.*::contains_key$|dashmap::.*contains_key$") and "pipe_finalized" in (g.atom[1].recv() or "") and g.truth is True for g in gs)
            held0 = False
            for g in gs:
                if g.atom[0] == "cmp" and g.truth is not None:
                    x, y = gate.provenance(g.atom[2]), gate.provenance(g.atom[3])
                    if "held_count" in x + y and ((g.atom[1] == "Eq" and g.truth) or (g.atom[1] == "Ne" and not g.truth)) and ("const:0" in (x, y)):
                        held0 = True
            key = "%s|returns fresh batch#%d" % (short(gate.path), len([x for x in r.instances if x["config"] == cfg and "returns fresh batch" in x["key"]]))
            if fin and held0:
                r.ok(cfg, key, where(gate, b), "guarded by pipe_finalized.contains_key(pid) && held_count == 0")
            elif fin:
                r.bad(cfg, key, where(gate, b), "a freshly popped batch is returned while older batches of a just-finalized pipe may still be held: it overtakes them (held_count is not checked)")
            else:
                r.bad(cfg, key, where(gate, b), "a freshly popped batch is returned without testing pipe_finalized: a message racing ahead of the identity event is delivered under the placeholder identity")
        r.require(cfg, 4, "gate obligations")


def r2_identity_from_source_pipe(chk):
    r = chk.rule("R2", "the identity prefix comes from the pipe the batch came from", "T11 derives-from",
                 "the pipe id handed to the identity lookup is the one returned with the batch; the prefix is pipe_to_identity_shared_map[that pipe] or that pipe's placeholder; "
                 "the identity registered for sending (RouterMap) and the one used as receive prefix (shared map) are the same value under the same pipe key")
    for cfg, prog in chk.configs():
        # (a) call sites: (pipe id, batch) are the two halves of one recv_logical_finalized result
        n_sites = 0
        lookup = None
        for body in prog.bodies.values():
            if "::tests" in body.path or "router_socket::RouterSocket" not in body.path:
                continue
            for c in body.calls:
                cb = prog.body(c.callee)
                if cb is None or cb.impl_self != "socket::router_socket::RouterSocket" or len(c.args) < 3:
                    continue
                tys = [a["p"]["ty"] if a["c"] in ("copy", "move") else "" for a in c.args]
                if not (tys[1] == "usize" and tys[2].endswith("message::FrameBatch")):
                    continue
                pb = body.provenance(c.args[2])
                if "recv_logical_finalized" not in pb:
                    continue
                lookup = cb
                n_sites += 1
                pa = body.provenance(c.args[1])
                key = "%s|pipe id and batch passed to %s come from one result" % (short(body.path), cb.name)
                if pa.endswith(".0") and pb.endswith(".1") and pa[:-2] == pb[:-2]:
                    r.ok(cfg, key, where(body, c.blk), "both halves of " + pa[:-2][-80:])
                else:
                    r.bad(cfg, key, where(body, c.blk), "the batch comes from `%s` but the pipe id passed with it is `%s`: the message would be prefixed with the identity of a different connection" % (pb[-120:], pa[-120:]))
        if lookup is None:
            r.bad(cfg, "anchor|identity lookup", "-", "no RouterSocket method taking (usize, FrameBatch) fed from recv_logical_finalized was found")
            continue
        # the receive-side map: the DashMap<usize, Blob> field of RouterSocket (found by type, not by name)
        adt_rs = prog.facts.adts.get("socket::router_socket::RouterSocket") or {"variants": []}
        shared_map = next((x["name"] for v in adt_rs["variants"] for x in v["fields"] if re.search(r"DashMap<usize, message::blob::Blob", x["ty"])), "pipe_to_identity_shared_map")
        # (b) inside the lookup: the identity returned with the payload is map[pipe param] or placeholder(pipe param)
        names, _ = lookup.names
        pid_name = names.get(2, "?")
        n_ret = 0
        for b, i, st in lookup.aggregates():
            if st["r"].get("variant") != "Ok" or not st["r"].get("adt", "").endswith("result::Result"):
                continue
            org = lookup.value_origin(st["r"]["ops"][0])
            if org[0] != "agg" or org[1]["r"].get("ak") != "tuple" or len(org[1]["r"]["ops"]) != 2:
                continue
            n_ret += 1
            ident = lookup.provenance_all(org[1]["r"]["ops"][0])
            key = "%s|returned identity#%d is the source pipe's" % (short(lookup.path), n_ret)
            want = "DashMap::get(self.%s, %s)" % (shared_map, pid_name)
            if want in ident:
                r.ok(cfg, key, where(lookup, b), "identity = %s[%s] (or its fallback)" % (shared_map, pid_name))
            else:
                r.bad(cfg, key, where(lookup, b), "the identity returned with the payload is `%s`, not the entry of pipe_to_identity_shared_map for the pipe the batch came from (`%s`)" % (ident[:200], pid_name))
        # fallbacks: every placeholder built on this path is the placeholder of the same pipe
        n_ph = 0
        for body in [lookup] + [x for x in prog.bodies.values() if x.path.startswith(lookup.path + "::{closure")]:
            for c in body.calls:
                if not c.matches(r"RouterSocket::pipe_id_to_placeholder_identity$"):
                    continue
                n_ph += 1
                src = body.provenance(c.args[0])
                key = "%s|placeholder is the source pipe's" % short(body.path)
                ok = src == pid_name
                if body is not lookup:
                    # closure: the argument must be the captured pipe id, and the capture must be the parameter
                    ok = False
                    for b2, i2, st2 in lookup.aggregates():
                        if st2["r"].get("ak") == "closure" and st2["r"].get("def") == body.path:
                            caps = [lookup.provenance(o) for o in st2["r"]["ops"]]
                            capnames = st2["r"].get("fields") or []
                            ok = src in (pid_name,) and pid_name in caps
                if ok:
                    r.ok(cfg, key, where(body, c.blk), "placeholder(%s)" % src)
                else:
                    r.bad(cfg, key, where(body, c.blk), "the fallback identity is the placeholder of `%s`, not of the pipe the batch came from" % src)
        r.require(cfg, n_sites + 2, "identity-prefix obligations")
        # (c) registration: the identity stored for sending and the one stored as receive prefix are one value, one pipe
        for body in prog.bodies.values():
            if body.impl_self != "socket::router_socket::RouterSocket" or not body.kind.startswith("coroutine") or "::tests" in body.path:
                continue
            reg = [c for c in body.calls if c.matches(r"RouterMap::(add_peer|update_peer_identity)$")]
            if not reg:
                continue
            ins = [c for c in body.calls if c.name == "insert" and "DashMap" in c.callee and (c.recv() or "").endswith("." + shared_map)]
            key = "%s|send-side and receive-side identity registered together" % short(body.root)
            if not ins:
                r.bad(cfg, key, where(body, reg[0].blk), "the identity is registered in the RouterMap (send side) but pipe_to_identity_shared_map (receive prefix) is not updated: messages from this peer keep the old prefix")
                continue
            c = reg[0]
            cb = prog.body(c.callee)
            cn, _ = cb.names if cb else ({}, None)
            # positions of the Blob and the usize among the callee's arguments
            vals = [body.provenance(a) for a in c.args]
            tys = [a["p"]["ty"] if a["c"] in ("copy", "move") else "" for a in c.args]
            blob = [v for v, t in zip(vals, tys) if t.endswith("Blob")]
            pid = [v for v, t in zip(vals, tys) if t == "usize"]
            iv = [body.provenance(a) for a in ins[0].args]
            if blob and pid and iv[1] == pid[0] and iv[2] == blob[0]:
                r.ok(cfg, key, where(body, c.blk), "RouterMap and shared map both get (%s, %s)" % (pid[0], blob[0]))
            else:
                r.bad(cfg, key, where(body, ins[0].blk), "RouterMap is given (%s, %s) but pipe_to_identity_shared_map gets (%s, %s): the identity a peer is addressed by and the identity its messages are prefixed with differ" % (pid[:1], blob[:1], iv[1], iv[2]))


def r3_maps_together(chk):
    r = chk.rule("R3", "both routing maps change together", "T2 sibling agreement",
                 "every RouterMap function that writes identity_to_peer_info or read_pipe_to_identity updates the other map too")
    for cfg, prog in chk.configs():
        for body in prog.bodies.values():
            if body.impl_self != "socket::patterns::router::RouterMap" or not body.kind.startswith("coroutine") or "::tests" in body.path:
                continue
            wr = {"identity_to_peer_info": [], "read_pipe_to_identity": []}
            for c in body.calls:
                if c.name in ("insert", "remove", "clear", "retain", "drain") and "HashMap" in c.callee:
                    rp = body.provenance(c.args[0]) if c.args else ""
                    for f in wr:
                        if ("RwLock::write(self.%s)" % f) in rp:
                            wr[f].append(c)
            if not wr["identity_to_peer_info"] and not wr["read_pipe_to_identity"]:
                continue
            key = "%s|writes both maps" % short(body.root)
            if wr["identity_to_peer_info"] and wr["read_pipe_to_identity"]:
                r.ok(cfg, key, where(body, wr["identity_to_peer_info"][0].blk))
            else:
                only = "identity_to_peer_info" if wr["identity_to_peer_info"] else "read_pipe_to_identity"
                r.bad(cfg, key, where(body, (wr[only][0]).blk), "`%s` writes only `%s`: the forward and reverse identity maps drift apart (stale route or unroutable connected peer)" % (body.name, only))
        r.require(cfg, 4, "RouterMap mutators (add_peer, update_peer_identity, remove_peer_by_read_pipe, remove_peer_by_identity)")


def r6_forward_entry_removed_by_owner(chk):
    r = chk.rule("R6", "a detaching connection removes the forward route only if it still owns it", "T3 control dependence on an ownership comparison",
                 "in every RouterMap method that drops the reverse entry of a pipe and then removes identity_to_peer_info[identity of that pipe], the removal is control-dependent on a "
                 "comparison between the owner recorded in the forward entry and the detaching pipe / endpoint: a second connection that announced the same identity since (collision, "
                 "reconnect with a fixed routing id) keeps its route")
    for cfg, prog in chk.configs():
        n = 0
        for body in prog.bodies.values():
            if body.impl_self != "socket::patterns::router::RouterMap" or not body.kind.startswith("coroutine") or "::tests" in body.path:
                continue
            names, _ = body.names
            rev_removes = [c for c in body.calls if c.name == "remove" and "HashMap" in c.callee and "self.read_pipe_to_identity" in body.provenance(c.args[0])]
            fwd_removes = [c for c in body.calls if c.name == "remove" and "HashMap" in c.callee and "self.identity_to_peer_info" in body.provenance(c.args[0])]
            for R in fwd_removes:
                sl = body.data_slice(R.args[1])
                # the key was read out of the reverse map (not handed in by the caller)
                via_reverse = any(x[0] == "call" and x[1].endswith("HashMap::remove") for x in sl) and any(
                    body.dominates(rr.blk, R.blk) for rr in rev_removes)
                if not via_reverse:
                    continue
                n += 1
                key = "%s|forward entry removed only by its owner" % short(body.root)
                found = None
                for s_ in range(body.n):
                    t = body.term(s_)
                    if t["k"] != "switch" or body.blocks[s_]["cleanup"] or is_plumbing(t):
                        continue
                    a, _pol = body.switch_atom(s_)
                    pairs_ = []
                    if a[0] == "cmp" and a[1] in ("Eq", "Ne"):
                        pairs_.append((a[2], a[3]))
                    elif a[0] == "place" and not a[2]["pr"]:
                        # `let other = match .. { Some(i) => i.owner != me, None => false }; if other {..}`: the comparison is one definition of the tested bool
                        for d_ in body.whole_defs(a[2]["l"]):
                            if d_[0] == "assign" and d_[3]["r"]["k"] == "binop" and d_[3]["r"]["op"] in ("Eq", "Ne"):
                                pairs_.append((d_[3]["r"]["a"], d_[3]["r"]["b"]))
                    if not pairs_:
                        continue
                    both = set()
                    for x_, y_ in pairs_:
                        both |= body.data_slice(x_) | body.data_slice(y_)
                    owner_side = any(x[0] == "call" and x[1].endswith("HashMap::get") for x in both) or any(x[0] == "place" and "identity_to_peer_info" in x[1] for x in both)
                    mine_side = any(x[0] == "place" and re.match(r"^(pipe_read_id|endpoint_uri|\w*pipe\w*|\w*uri\w*)$", x[1]) for x in both) or any(x[0] == "param" for x in both)
                    if not (owner_side and mine_side):
                        continue
                    # control dependence: one edge of the comparison can reach the removal, another cannot
                    reach = [R.blk in body.reachable_constprop([tb]) for tb, lab in body.edges(s_)]
                    if any(reach) and not all(reach):
                        found = s_
                        break
                if found is not None:
                    r.ok(cfg, key, where(body, R.blk), "removal depends on the ownership comparison at %s" % body.term(found)["sp"].split("/")[-1])
                else:
                    r.bad(cfg, key, where(body, R.blk), "`%s` looks up the identity stored for the detaching pipe and removes identity_to_peer_info[identity] without checking that the entry still belongs to this pipe: if another connection announced the same identity in the meantime (collision, reconnect with a fixed ROUTING_ID) the live connection's route is deleted and the peer becomes unroutable while connected" % body.name)
        r.require(cfg, 1, "detach paths that remove a forward entry found through the reverse map")


def r4_mandatory(chk):
    r = chk.rule("R4", "unroutable exits honour ROUTER_MANDATORY", "T3 guarded-by",
                 "every HostUnreachable error constructed in RouterSocket::send/send_multipart is under `router_mandatory == true`, and the sibling edge returns Ok(())")
    for cfg, prog in chk.configs():
        n = 0
        for body in prog.bodies.values():
            if body.impl_self != "socket::router_socket::RouterSocket" or body.name not in ("send", "send_multipart") or not body.kind.startswith("coroutine"):
                continue
            for b, i, st in body.aggregates():
                if st["r"].get("variant") != "HostUnreachable":
                    continue
                n += 1
                key = "%s|HostUnreachable#%d only if mandatory" % (short(body.path), n)
                gs = body.guards(b)
                ok = any(g.atom[0] == "place" and re.search(r"router_mandatory", g.atom[1]) and g.truth is True for g in gs)
                if not ok:
                    # closure bodies (map_err) capture the flag
                    ok = any(g.atom[0] == "place" and "mandatory" in g.atom[1] and g.truth is True for g in gs)
                if ok:
                    r.ok(cfg, key, where(body, b))
                else:
                    r.bad(cfg, key, where(body, b), "HostUnreachable is returned without testing ROUTER_MANDATORY: with the option off an unroutable message must be dropped silently")
        for body in prog.bodies.values():
            if body.kind == "closure" and "router_socket::RouterSocket" in body.path and ("::send::" in body.path or "::send_multipart::" in body.path):
                for b, i, st in body.aggregates():
                    if st["r"].get("variant") == "HostUnreachable":
                        n += 1
                        gs = body.guards(b)
                        ok = any(g.atom[0] == "place" and "mandatory" in g.atom[1] and g.truth is True for g in gs)
                        key = "%s|HostUnreachable only if mandatory" % short(body.path)
                        (r.ok(cfg, key, where(body, b)) if ok else r.bad(cfg, key, where(body, b), "HostUnreachable constructed without testing ROUTER_MANDATORY"))
        r.require(cfg, 5, "HostUnreachable exits")


def r5_delimiter_symmetry(chk):
    r = chk.rule("R5", "delimiter insertion and removal are symmetric", "T9 constant agreement",
                 "router_auto_encode inserts the delimiter at the index router_auto_decode removes (1); dealer_auto_* use index 0")
    for cfg, prog in chk.configs():
        idx = {}
        for nm in ("router_auto_encode", "router_auto_decode", "dealer_auto_encode", "dealer_auto_decode"):
            body = prog.body("socket::patterns::framing::" + nm)
            if body is None:
                r.bad(cfg, "anchor|" + nm, "-", "function not found")
                continue
            want = "insert" if nm.endswith("encode") else "remove"
            cs = [c for c in body.calls if c.matches(r"FrameBatch::%s$" % want)]
            if len(cs) != 1:
                r.bad(cfg, "%s|one %s" % (nm, want), where(body, 0), "expected exactly one FrameBatch::%s, found %d" % (want, len(cs)))
                continue
            idx[nm] = (body.const_int(cs[0].args[1]), body, cs[0])
        for side, want in (("router", 1), ("dealer", 0)):
            e, d = idx.get(side + "_auto_encode"), idx.get(side + "_auto_decode")
            if not e or not d:
                continue
            key = "%s delimiter index" % side
            if e[0] == d[0] == want:
                r.ok(cfg, key, where(e[1], e[2].blk), "insert(%d) / remove(%d)" % (e[0], d[0]))
            else:
                r.bad(cfg, key, where(e[1], e[2].blk), "%s_auto_encode inserts at %s but %s_auto_decode removes at %s (expected %d): payload frames are shifted or an envelope frame is lost" % (side, e[0], side, d[0], want))
        r.require(cfg, 2, "delimiter pairs")


def run(chk):
    chk.undecided = ["which peer wins a colliding identity; reconnect orders", "payload shapes with inner empty frames (value-level)"]
    r1_identity_gate(chk)
    r2_identity_from_source_pipe(chk)
    r3_maps_together(chk)
    r4_mandatory(chk)
    r6_forward_entry_removed_by_owner(chk)
    r5_delimiter_symmetry(chk)
