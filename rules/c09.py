"""C09 — dropping a send or recv future is safe at every await point.

Decides the structural necessary conditions: no .await between a destructive take from a shared
queue and its hand-off to the caller (except the reviewed ready-list re-arm), the send reservation
is RAII, and a frame flagged MORE is never handed to a connection on its own.  The effect of a drop
at each Pending poll is dynamic and is not decided.  FSM consistency under cancellation is C10 R1."""
import re

from vlib import mir
from vlib.mir import strip_generics
from vlib.util import where, short, is_plumbing

# awaits that may follow a destructive take, reviewed
AWAIT_AFTER_TAKE_OK = {
    ("ready_pipe_queue::ReadyPipeQueue::pop::{closure#0}", "AsyncSender::send"):
        "re-arm of the ready list: its capacity is >= the number of registered pipes and each pipe holds at most one entry, so this send completes on its first poll (no Pending, hence no cancellation point)",
}


def r1_take_then_await(chk):
    r = chk.rule("R1", "no .await between a destructive take and its hand-off", "T10",
                 "in the receive paths, after an item has left a shared queue (try_recv Ok) there is no suspension point before it is returned, except the reviewed ready-list re-arm")
    for cfg, prog in chk.configs():
        for body in prog.bodies.values():
            if not body.kind.startswith("coroutine") or "tests" in body.path:
                continue
            if not re.search(r"socket::patterns::(ready_pipe_queue|anonymous_ingress|addressed_ingress)", body.path):
                continue
            takes = [c for c in body.calls if c.matches(r"BoundedAsyncReceiver::try_recv$")]
            for tk in takes:
                # Ok / Some edge of the result
                starts = []
                for s in range(body.n):
                    t = body.term(s)
                    if t["k"] == "switch":
                        a, _ = body.cond_atom(t["d"])
                        if a[0] == "discr" and a[3]["l"] == tk.dest["l"] and not a[3]["pr"]:
                            lab = body.label_for(s, 0 if a[2].startswith("std::result::Result<") else 1)
                            starts += [tb for tb, l2 in body.edges(s) if l2 == lab]
                if not starts:
                    continue
                # hand-off: blocks that build the function's return value from the item / return
                rets = set(b for b in range(body.n) if body.term(b)["k"] == "return")
                reach = body.reachable(starts, avoid_blocks=[tk.blk])
                for aw in body.awaits():
                    if aw.yield_blk is None or aw.yield_blk not in reach:
                        continue
                    ac = body.awaited_call(aw)
                    what = ac.callee.split("::")[-2] + "::" + ac.name if ac is not None else "?"
                    key = "%s|await %s after take" % (short(body.path), what)
                    listed = AWAIT_AFTER_TAKE_OK.get((short(body.path), what))
                    if listed:
                        r.ok(cfg, key + " (listed)", where(body, aw.yield_blk), listed)
                    else:
                        r.bad(cfg, key, where(body, aw.yield_blk), "the future can be dropped at this .await after an item was already taken out of the pipe (%s): the message is lost to the application" % tk.sp.split("/")[-1])
            # recv side: the first suspension point precedes any take
            if body.name == "pop" and takes:
                first = [a for a in body.awaits() if a.yield_blk is not None and body.dominates(a.into_future_blk, takes[0].blk)]
                key = "%s|waits on the ready list before taking" % short(body.path)
                (r.ok if first else r.bad)(cfg, key, where(body, takes[0].blk), *([] if first else ["pop() takes an item without first awaiting the ready list"]))
        r.require(cfg, 2, "take sites in the receive paths")


def r2_reservation_raii(chk):
    r = chk.rule("R2", "the send reservation is RAII", "T10",
                 "SendReservation::drop rolls reserved_count back iff the reservation was not committed; commit() is called only after the channel write; the guard is never forgotten")
    for cfg, prog in chk.configs():
        d = next((b for b in prog.bodies.values() if b.impl_self and "ready_pipe_queue::SendReservation" in b.impl_self and b.impl_trait == "std::ops::Drop"), None)
        if d is None:
            r.bad(cfg, "anchor|SendReservation::drop", "-", "no Drop impl for SendReservation: a cancelled send leaks its reservation")
            continue
        subs = [c for c in d.calls if c.matches(r"atomic::Atomic::fetch_sub$") and (c.recv() or "").endswith(".reserved_count")]
        # the flag: the bool field of SendReservation (found by type, not by name); the commit method: the one that sets it
        adt_r = next((a for p_, a in prog.facts.adts.items() if p_.endswith("ready_pipe_queue::SendReservation")), {"variants": []})
        flags = [x["name"] for v in adt_r["variants"] for x in v["fields"] if x["ty"] == "bool"]
        ok = bool(subs) and any(g.atom[0] == "place" and any(g.atom[1].endswith("." + f_) for f_ in flags) and g.truth is False for g in d.guards(subs[0].blk, select_aware=False))
        setters = []
        for sb in prog.bodies.values():
            if sb.impl_self and "ready_pipe_queue::SendReservation" in sb.impl_self and sb.impl_trait is None and sb.kind in ("fn", "assoc_fn"):
                for _b, _i, st in sb.statements():
                    if st["k"] == "assign" and st["p"]["pr"] and st["p"]["pr"][-1][0] == "field" and st["p"]["pr"][-1][2] in flags and st["r"]["k"] == "use" and st["r"]["o"].get("int") == 1 and sb.rec.get("argc", 0) == 1:
                        setters.append(__import__("vlib.mir", fromlist=["strip_generics"]).strip_generics(sb.path))
        (r.ok if ok else r.bad)(cfg, "SendReservation::drop|rollback iff !committed", where(d, subs[0].blk if subs else 0), *([] if ok else ["the rollback in Drop is not conditioned on `!self.committed`"]))
        for c in [x for x in prog.all_calls() if x.callee in setters]:
            b = c.body
            if "tests" in b.path:
                continue
            from rules.c08 import _discr_edges
            succ_edges = _discr_edges(b, r"BoundedAsyncSender::(try_send|send)\(", "std::result::Result<", 0) | _discr_edges(b, r"BoundedAsyncSender::(try_send|send)\(", "std::ops::ControlFlow<", 0)
            reach = b.reachable([0], avoid_edges=succ_edges)
            key = "%s|commit() only after the channel write" % short(b.path)
            (r.ok if succ_edges and c.blk not in reach else r.bad)(cfg, key, where(b, c.blk), *([] if succ_edges and c.blk not in reach else ["commit() is reachable without a successful channel write: a cancelled / failed send keeps its reservation forever"]))
        for c in prog.calls_to(r"^std::mem::forget$"):
            if "SendReservation" in (c.args[0]["p"]["ty"] if c.args and c.args[0]["c"] in ("copy", "move") else ""):
                r.bad(cfg, "%s|forget(SendReservation)" % short(c.body.path), where(c.body, c.blk), "a SendReservation is forgotten")
        r.require(cfg, 3, "reservation obligations")


FRESH = r"Msg::(from_vec|new|from_static|from_bytes)\(|construct_subscription_message\("


def whole_message(prog, b, c, arg, depth=0):
    """is the Msg handed over at call c provably a complete single-frame message?  returns reason or None"""
    pv = b.provenance(arg)
    for g in b.guards(c.blk):
        if g.atom[0] == "call" and g.atom[1].matches(r"Msg::is_more$") and g.truth is False:
            return "under !is_more()"
    # flags explicitly cleared / set to COMMAND on this value before the hand-off
    sets = [x for x in b.calls if x.matches(r"Msg::set_flags$") and b.dominates(x.blk, c.blk) and x.args and b.provenance(x.args[0]) == pv]
    for x in sets:
        args = " ".join(b.provenance(a) for a in x.args[1:]) + " ".join(a.get("item", "") or "" for a in x.args[1:])
        if "MsgFlags>::MORE" in args and "bitand" not in args:
            return None  # MORE set on purpose: a fragment
    if re.search(FRESH, pv) and not sets:
        return "freshly constructed single-frame message (no flags)"
    if arg["c"] in ("copy", "move") and depth < 3:
        org = b.value_origin(arg)
        if org[0] == "call" and org[1].declared == "std::clone::Clone::clone" and org[1].args:
            # clone of a message: same flags as the original
            ra = org[1].args[0]
            if ra["c"] in ("copy", "move"):
                ds = b.whole_defs(ra["p"]["l"])
                if len(ds) == 1 and ds[0][0] == "assign" and ds[0][3]["r"]["k"] == "ref":
                    pl = ds[0][3]["r"]["p"]
                    org = ("place", pl) if pl["pr"] else b.value_origin({"c": "copy", "p": pl})
        is_param = org[0] == "place" and ((not org[1]["pr"] and org[1]["l"] <= b.rec.get("argc", 0)) or (org[1]["l"] == 1 and len(org[1]["pr"]) == 1 and org[1]["pr"][0][0] == "field" and str(org[1]["pr"][0][2]).startswith("^")))
        if is_param:
            callers = [x for x in prog.all_calls() if strip_generics(b.root) == x.callee and "tests" not in x.body.path]
            if callers:
                rs = []
                for x in callers:
                    hit = None
                    for a in x.args:
                        ty = a["p"]["ty"] if a["c"] in ("copy", "move") else a.get("ty", "")
                        if ty == "message::msg::Msg":
                            hit = whole_message(prog, x.body, x, a, depth + 1)
                    rs.append(hit)
                if all(rs):
                    return "every caller passes a complete single-frame message (%s)" % rs[0]
    return None


def r3_no_lone_more_frame(chk):
    r = chk.rule("R3", "a frame flagged MORE is never handed to a connection on its own", "T3",
                 "every single-frame hand-off (ISocketConnection::send_message) carries a complete message (fresh frame, or under !is_more()); multipart messages travel as one FrameBatch")
    for cfg, prog in chk.configs():
        per_body = {}
        for c in prog.all_calls():
            if not (c.trait == "socket::connection_iface::ISocketConnection" and c.name == "send_message") or "tests" in c.body.path:
                continue
            b = c.body
            if b.impl_trait == "socket::connection_iface::ISocketConnection":
                continue
            why = whole_message(prog, b, c, c.args[1]) if len(c.args) > 1 else None
            if why is None and b.impl_self == "socket::sub_socket::SubSocket":
                # SUB only sends SUBSCRIBE/UNSUBSCRIBE bodies built by construct_subscription_message (Msg::from_vec, no flags)
                sub_bodies = [x for x in prog.bodies.values() if x.impl_self == "socket::sub_socket::SubSocket"]
                makes = any(c2.matches(r"construct_subscription_message$") for x in sub_bodies for c2 in x.calls)
                flags = any(c2.matches(r"Msg::set_flags$") for x in sub_bodies for c2 in x.calls)
                if makes and not flags:
                    why = "SUB control frames come from construct_subscription_message and no SubSocket code sets flags"
            if why is None and body_is_distributor(b):
                why = "Distributor::send_to_all is reached only from PubSocket::send, which clears MORE"
            per_body.setdefault(b.path, []).append((c, why))
        for path, sites in sorted(per_body.items()):
            b = sites[0][0].body
            bad = [c for c, why in sites if why is None]
            key = "%s|single-frame hand-offs carry whole messages" % short(path)
            if bad:
                r.bad(cfg, key, where(b, bad[0].blk), "%d of %d single-frame hand-offs may carry a frame flagged MORE (frame-by-frame send): if the caller never completes the message (cancelled / dropped future) the peer's session holds a partial message and appends the next message to it" % (len(bad), len(sites)))
            else:
                r.ok(cfg, key, where(b, sites[0][0].blk), "; ".join(sorted(set(w for _, w in sites))))
        r.require(cfg, 3, "bodies with single-frame hand-offs")


def body_is_distributor(b):
    return b.impl_self == "socket::patterns::distributor::Distributor"


def _stored_variant(body, blk, how):
    """variant of the REQ/REP state enum stored at block `blk` (plain store or the new value of mem::replace)"""
    out = []
    if how == "store":
        for st in body.blocks[blk]["st"]:
            if st["k"] == "assign" and st["p"]["pr"] and st["p"]["pr"][0][0] == "deref":
                rv = st["r"]
                if rv["k"] == "agg" and rv.get("adt", "").endswith("State"):
                    out.append(rv.get("variant"))
                elif rv["k"] == "use":
                    org = body.value_origin(rv["o"])
                    out.append(org[1]["r"].get("variant") if org[0] == "agg" else None)
    else:
        t = body.term(blk)
        c = __import__("vlib.mir", fromlist=["Call"]).Call(body, blk, t)
        if len(c.args) > 1:
            org = body.value_origin(c.args[1])
            out.append(org[1]["r"].get("variant") if org[0] == "agg" else None)
    return out


def r4_fsm_advances_after_the_await(chk):
    from rules import c10
    r = chk.rule("R4", "REQ/REP state advances only after the awaited hand-off completed", "T10 + T7 lock scopes",
                 "in ReqSocket/RepSocket operations no store of a non-initial protocol state is followed by a suspension point: a future dropped there would leave the "
                 "socket in a state that rejects the next valid call although the operation never happened (resets to the constructor's initial state are cancel-safe)")
    for cfg, prog in chk.configs():
        init = {}
        for b in prog.find_bodies(r"(req_socket::ReqSocket|rep_socket::RepSocket)::new$"):
            for blk, i, st in b.aggregates():
                if st["r"].get("adt", "").endswith("State"):
                    init[b.impl_self or b.path.rsplit("::", 1)[0]] = st["r"].get("variant")
        if len(init) != 2:
            r.bad(cfg, "anchor|initial REQ/REP states", "core/src/socket", "constructors' initial state not found (%s)" % init)
            continue
        n = 0
        for body in c10.fsm_bodies(prog):
            ini = init.get(body.impl_self)
            ys = body.yields()
            for sc in c10.lock_scopes(body, r"^self\.state$"):
                for w, how in sc.writes:
                    n += 1
                    vs = _stored_variant(body, w, how)
                    later = [y for y in ys if y in body.reachable([w]) and y != w]
                    key = "%s|state <- %s" % (short(body.path), ",".join(str(v) for v in vs) or "?")
                    if not later:
                        r.ok(cfg, key, where(body, w), "no suspension point after the store")
                    elif vs and all(v == ini for v in vs):
                        r.ok(cfg, key, where(body, w), "reset to the initial state %s before the await: a dropped future leaves the socket accepting the next call" % ini)
                    else:
                        r.bad(cfg, key, where(body, w), "the protocol state is advanced to %s and the task then awaits at %s: if the future is dropped there (timeout, select!, back-pressure) the operation did not happen but the socket rejects the next valid call" % (",".join(str(v) for v in vs) or "an unknown state", body.term(later[0])["sp"].split("/")[-1]))
        r.require(cfg, 8, "REQ/REP state stores")


HANDOFF = re.compile(r"ISocketConnection::(send_multipart|send_multipart_owned|send_message|try_send_multipart_owned_sync)$")


def r5_one_handoff_per_message(chk):
    r = chk.rule("R5", "one logical message is handed to a connection in one operation", "T4 path census",
                 "in every ISocket::send / send_multipart no path hands frames to the same connection twice (two awaited pushes of parts of one message): "
                 "a send cancelled, timed out or refused between the two leaves the first part queued alone and it is delivered glued to the next message")
    for cfg, prog in chk.configs():
        n = 0
        for body in prog.bodies.values():
            if body.impl_trait != "socket::ISocket" or body.name not in ("send", "send_multipart") or not body.kind.startswith("coroutine") or "::tests" in body.path:
                continue
            hs = [c for c in body.calls if HANDOFF.search(c.declared) or HANDOFF.search(c.callee)]
            if not hs:
                continue
            n += 1
            by_recv = {}
            for c in hs:
                by_recv.setdefault(body.provenance(c.args[0]) if c.args else "?", []).append(c)
            key = "%s|one hand-off per message" % short(body.root)
            bad = None
            for rp, cs in by_recv.items():
                for c1 in cs:
                    if c1.target is None:
                        continue
                    reach = body.reachable([c1.target])
                    loops1 = set(h for h, _ in body.loops_containing(c1.blk))
                    for c2 in cs:
                        if c2.blk not in reach:
                            continue
                        if c2 is c1 and not loops1:
                            continue
                        if c2 is c1:
                            # the same call again through a loop: a loop over peers re-binds the receiver; a loop over the frames of one message does not
                            if any(x in blocks for h, blocks in body.loops_containing(c1.blk) for x in body.def_blocks(c1.args[0]["p"]["l"]) if c1.args and c1.args[0]["c"] in ("copy", "move")):
                                continue
                        bad = (c1, c2, rp)
                        break
                    if bad:
                        break
                if bad:
                    break
            if bad:
                c1, c2, rp = bad
                r.bad(cfg, key, where(body, c2.blk), "after %s (%s) the same path hands more frames to the same connection `%s` with %s (%s): the message reaches the peer's pipe in pieces, and a cancellation / timeout / full pipe between the pieces leaves a fragment that is later delivered as the head of another message" % (
                    c1.name, c1.sp.split("/")[-1], rp[-60:], c2.name, c2.sp.split("/")[-1]))
            else:
                r.ok(cfg, key, where(body, hs[0].blk), "%d hand-off site(s), at most one per path and connection" % len(hs))
        r.require(cfg, 3, "send paths that hand frames to a connection themselves")


def run(chk):
    chk.undecided = ["the effect of dropping a future at each Pending poll (dynamic enumeration of poll points)", "interaction of cancellation with peer traffic"]
    r1_take_then_await(chk)
    r2_reservation_raii(chk)
    r3_no_lone_more_frame(chk)
    r4_fsm_advances_after_the_await(chk)
    r5_one_handoff_per_message(chk)
