"""C15 — LINGER governs what happens to accepted messages at close.

Decides: whether the session's graceful-shutdown path drains what it has buffered before it shuts
the write half, and the shape of the linger deadline.  Not: how many messages arrive; wall-clock bounds."""
import re

from vlib import mir
from vlib.mir import strip_generics
from vlib.util import where, short, is_plumbing


def r1_flush_before_close(chk):
    r = chk.rule("R1", "the session flushes its buffers before a graceful close", "T4 must-pass-through",
                 "on the graceful path (ShuttingDownStream) every path from the end of the operational loop to write_half.shutdown() passes through a drain of the session's egress buffers (egress_buffer / pending_vectored / core_carryover)")
    for cfg, prog in chk.configs():
        run = prog.body("sessionx::actor::SessionConnectionActorX::run_loop::{closure#0}")
        pgs = prog.body("sessionx::actor::SessionConnectionActorX::perform_graceful_shutdown::{closure#0}")
        if run is None or pgs is None:
            r.bad(cfg, "anchor|run_loop/perform_graceful_shutdown", "-", "not found")
            continue
        # drains: EgressDriver / write_all / write_owned / flush of egress_buffer outside the operational select loop
        sel_loops = [lb for h, lb in run.loops() if any(s.out_switch in lb for s in run.selects)]
        in_op_loop = set().union(*sel_loops) if sel_loops else set()
        calls_pgs = [c for c in run.calls if c.matches(r"perform_graceful_shutdown$")]
        drains = []
        for body, scope in ((run, [b for b in run.live_blocks() if b not in in_op_loop]), (pgs, list(pgs.live_blocks()))):
            for c in body.calls:
                if c.blk not in scope or is_plumbing(c.t):
                    continue
                if c.matches(r"EgressDriver::new$|write_all$|write_vectored$|write_owned$|AsyncWriteExt::flush$|EgressBuffer::(advance|current_slice|fill_slices)$"):
                    drains.append((body, c))
        shut = [c for c in pgs.calls if c.name == "shutdown" and "write_half" in pgs.provenance(c.args[0])]
        key = "graceful close|drain before write_half.shutdown()"
        if not shut:
            r.bad(cfg, key, where(pgs, 0), "write_half.shutdown() not found on the graceful path")
        else:
            pre = [c for b, c in drains if b is pgs and pgs.dominates(c.blk, shut[0].blk)] + [c for b, c in drains if b is run and calls_pgs and run.dominates(c.blk, calls_pgs[0].blk)]
            if pre:
                r.ok(cfg, key, where(pgs, shut[0].blk), "drained by %s" % pre[0].callee)
            else:
                r.bad(cfg, key, where(pgs, shut[0].blk), "the session shuts its write half without writing out egress_buffer / pending_vectored / core_carryover (after the operational loop they are only mentioned by diagnostics): messages send() accepted before close() are discarded whatever LINGER is")
        # the linger predicate only looks at the core->session pipes
        lp = next((x for x in prog.bodies.values() if x.impl_self == "socket::core::state::ShutdownCoordinator" and x.name == "is_linger_expired_or_queues_empty" and x.kind != "closure"), None)
        if lp is not None:
            looks = sorted(set(m for c in lp.calls for m in re.findall(r"\.(pipes_tx|endpoints|sessions)\b", lp.provenance(c.args[0]) if c.args else "")))
            r.note("%s: linger predicate inspects %s" % (cfg, looks))
        r.require(cfg, 1, "graceful close path")


def r2_deadline_shape(chk):
    r = chk.rule("R2", "linger deadline shape", "T3/T9",
                 "LINGER None -> no deadline; zero -> now; d -> now + d; the predicate fires on now >= deadline")
    for cfg, prog in chk.configs():
        bs = [x for x in prog.bodies.values() if x.impl_self == "socket::core::state::ShutdownCoordinator" and x.kind != "closure"]
        b = next((x for x in bs if x.name == "start_linger_if_needed"), None)
        p = next((x for x in bs if x.name == "is_linger_expired_or_queues_empty"), None)
        if b is None or p is None:
            r.bad(cfg, "anchor|ShutdownCoordinator", "-", "not found")
            continue
        stores = [(blk, st) for blk, i, st in b.statements() if st["k"] == "assign" and st["p"]["pr"] and st["p"]["pr"][-1][0] == "field" and st["p"]["pr"][-1][2] == "linger_deadline"]
        kinds = {}
        for blk, st in stores:
            pv = b.provenance(st["r"]["o"]) if st["r"]["k"] == "use" else ""
            org = b.value_origin(st["r"]["o"]) if st["r"]["k"] == "use" else ("other",)
            if org[0] == "agg" and org[1]["r"].get("variant") == "None":
                kinds["none"] = blk
            elif org[0] == "agg" and org[1]["r"].get("variant") == "Some":
                inner = b.provenance_all(org[1]["r"]["ops"][0])
                if "Add" in inner or "::add(" in inner:
                    kinds["now+d"] = blk
                elif "Instant::now" in inner:
                    kinds["now"] = blk
        for k2, want in (("none", "LINGER -1 -> no deadline"), ("now", "LINGER 0 -> deadline now"), ("now+d", "LINGER d -> now + d")):
            (r.ok if k2 in kinds else r.bad)(cfg, "start_linger_if_needed|%s" % want, where(b, kinds.get(k2, 0)), *([] if k2 in kinds else ["case missing: " + want]))
        # zero case guarded by is_zero
        if "now" in kinds:
            ok = any(g.atom[0] == "call" and g.atom[1].name == "is_zero" and g.truth is True for g in b.guards(kinds["now"], select_aware=False))
            (r.ok if ok else r.bad)(cfg, "start_linger_if_needed|`now` only for zero LINGER", where(b, kinds["now"]), *([] if ok else ["the immediate deadline is not restricted to LINGER == 0"]))
        ge = [c for c in p.calls if c.name in ("ge", "gt") and "Instant::now" in p.provenance_all(c.args[0]) and "deadline" in p.provenance_all(c.args[1])]
        (r.ok if ge and ge[0].name == "ge" else r.bad)(cfg, "is_linger_expired_or_queues_empty|now >= deadline", where(p, ge[0].blk if ge else 0), *([] if ge and ge[0].name == "ge" else ["the expiry test is not `Instant::now() >= deadline`"]))
        r.require(cfg, 5, "linger obligations")


def _state_required(b):
    """variant X when method body b starts with `if self.state != X { return }`, else None"""
    # the first branch of the function
    blk = 0
    for _ in range(12):
        t = b.term(blk)
        if t["k"] == "switch":
            break
        if t["k"] in ("goto", "drop"):
            blk = t["t"]
        elif t["k"] == "call" and t.get("t") is not None:
            blk = t["t"]
        else:
            return None
    else:
        return None
    a, pol = b.switch_atom(blk)
    if a[0] != "call" or a[1].name not in ("ne", "eq") or len(a[1].args) != 2:
        return None
    c = a[1]
    if not b.provenance(c.args[0]).endswith("self.state"):
        return None
    m = re.search(r"ShutdownPhase::(\w+)$", b.provenance(c.args[1]))
    if not m:
        return None
    mismatch = b.bool_edge_label(blk, pol if c.name == "ne" else not pol)
    mt = [t for t, lab in b.edges(blk) if lab == mismatch]
    ot = [t for t, lab in b.edges(blk) if lab != mismatch]
    only_mismatch = b.reachable(mt) - b.reachable(ot)
    for bb, i, st in b.statements():
        if bb in only_mismatch and st["k"] == "assign" and st["p"]["pr"] and b.place_path(st["p"]).startswith("self."):
            return None
    # the mismatch side must be the short one: it leaves the function (logging aside) without rejoining the work of the other side
    if (b.reachable(mt) & b.reachable(ot)) - set(x for x in b.reachable(mt) if b.term(x)["k"] in ("return", "goto", "drop")):
        return None
    work = [c2 for c2 in b.calls if c2.blk in (b.reachable(ot) - b.reachable(mt)) and not (c2.exp or "")]
    idle = [c2 for c2 in b.calls if c2.blk in only_mismatch and not (c2.exp or "")]
    if idle or not (work or [1 for bb, i, st in b.statements() if bb in (b.reachable(ot) - b.reachable(mt)) and st["k"] == "assign" and st["p"]["pr"] and b.place_path(st["p"]).startswith("self.")]):
        return None
    return m.group(1)


def r3_linger_started_in_lingering(chk):
    r = chk.rule("R3", "the linger clock is started in the phase its starter requires", "T3 guarded-by (callee precondition at every call site)",
                 "ShutdownCoordinator methods that begin with `if self.state != X { return }` (start_linger_if_needed, is_linger_expired_or_queues_empty: X = Lingering) are called only where "
                 "`state = X` was the last assignment reaching the call or a guard `state == X` dominates it; called earlier they silently do nothing, the deadline is never armed and LINGER 0 / a bounded LINGER turn into an unbounded wait")
    for cfg, prog in chk.configs():
        n = 0
        methods = {}
        for b in prog.bodies.values():
            if b.impl_self == "socket::core::state::ShutdownCoordinator" and b.kind in ("fn", "assoc_fn"):
                x = _state_required(b)
                if x:
                    methods[strip(b.path)] = (b, x)
        if not methods:
            r.bad(cfg, "anchor|state-guarded coordinator methods", "core/src/socket/core/shutdown.rs", "no ShutdownCoordinator method with a `self.state != X -> return` entry guard found")
            continue
        for c in prog.all_calls():
            tgt = methods.get(strip(c.callee))
            if not tgt or "::tests" in c.body.path:
                continue
            callee, x = tgt
            body = c.body
            n += 1
            recv = c.recv() or ""
            key = "%s|%s called in phase %s" % (short(body.path), callee.name, x)
            ok = None
            # (b) a dominating guard state == X on the same receiver
            for g in body.guards(c.blk, select_aware=False):
                if g.atom[0] == "call" and g.atom[1].name in ("ne", "eq") and len(g.atom[1].args) == 2:
                    pa = body.provenance(g.atom[1].args[0])
                    pb = body.provenance(g.atom[1].args[1])
                    if pa == recv + ".state" and pb.endswith("ShutdownPhase::" + x) and g.truth is (g.atom[1].name == "eq"):
                        ok = "guard %s.state == %s" % (recv.split("(")[-1][:30], x)
                if g.atom[0] == "discr" and g.atom[1] == recv + ".state":
                    adt = prog.facts.adts.get("socket::core::state::ShutdownPhase")
                    names = [v["name"] for v in adt["variants"]] if adt else []
                    if isinstance(g.label, int) and g.label < len(names) and names[g.label] == x:
                        ok = "match arm %s" % x
            # (a) the state assignments that reach the call
            assigns = []
            for bb, i, st in body.statements():
                if st["k"] == "assign" and st["p"]["pr"] and st["p"]["pr"][-1][0] == "field" and st["p"]["pr"][-1][2] == "state" and st["p"]["ty"].endswith("ShutdownPhase") and body.place_path(st["p"]) == recv + ".state":
                    var = None
                    if st["r"]["k"] == "agg":
                        var = st["r"].get("variant")
                    elif st["r"]["k"] == "use":
                        org = body.value_origin(st["r"]["o"])
                        var = org[1]["r"].get("variant") if org[0] == "agg" else "?"
                    assigns.append((bb, var))
            blocks = set(bb for bb, _ in assigns)
            reaching = []
            for bb, var in assigns:
                others = blocks - {bb}
                if c.blk in body.reachable([bb], avoid_blocks=others) and (bb != c.blk):
                    reaching.append(var)
            entry_reaches = c.blk in body.reachable([0], avoid_blocks=blocks)
            if ok is None and reaching and all(v == x for v in reaching) and not entry_reaches:
                ok = "state = %s is the only assignment reaching the call" % x
            if ok:
                r.ok(cfg, key, where(body, c.blk), ok)
            else:
                r.bad(cfg, key, where(body, c.blk), "%s() returns without doing anything unless state == %s, but at this call the state is %s: the linger deadline is not armed here" % (
                    callee.name, x, ("whatever it was on entry" if entry_reaches and not reaching else "/".join(sorted(set(str(v) for v in reaching)) + (["<entry state>"] if entry_reaches else [])))))
        r.require(cfg, 5, "calls of state-guarded coordinator methods")


def strip(p):
    from vlib.mir import strip_generics
    return strip_generics(p)


def run(chk):
    chk.undecided = ["how many accepted messages arrive for a given LINGER", "wall-clock bound of close()/term()"]
    r1_flush_before_close(chk)
    r2_deadline_shape(chk)
    r3_linger_started_in_lingering(chk)
