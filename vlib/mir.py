"""CFG / def-use / access-path / call-graph utilities over the driver's facts."""
import re
from collections import defaultdict, deque


def strip_generics(p):
    """`std::vec::Vec::<T, A>::push` -> `std::vec::Vec::push` (balanced <>), but
    keeps a leading `<T as Trait>` qualified-self segment."""
    out = []
    depth = 0
    i = 0
    n = len(p)
    while i < n:
        c = p[i]
        if c == "<":
            if depth == 0 and i >= 2 and p[i - 2 : i] == "::":
                # generic argument list: skip to the matching '>'
                d = 0
                j = i
                while j < n:
                    if p[j] == "<":
                        d += 1
                    elif p[j] == ">" and (j == 0 or p[j - 1] != "-"):
                        d -= 1
                        if d == 0:
                            break
                    j += 1
                # drop the preceding '::'
                if out and out[-1] == ":" and len(out) >= 2 and out[-2] == ":":
                    out.pop()
                    out.pop()
                i = j + 1
                continue
            depth += 1
        elif c == ">" and (i == 0 or p[i - 1] != "-"):
            depth = max(0, depth - 1)
        out.append(c)
        i += 1
    return "".join(out)


IDENTITY_CALLS = {
    "std::ops::Deref::deref",
    "std::ops::DerefMut::deref_mut",
    "std::convert::AsRef::as_ref",
    "std::convert::AsMut::as_mut",
    "std::borrow::Borrow::borrow",
    "std::borrow::BorrowMut::borrow_mut",
    "std::pin::Pin::new",
    "std::pin::Pin::new_unchecked",
    "std::pin::Pin::as_mut",
    "std::pin::Pin::get_mut",
    "std::pin::Pin::get_unchecked_mut",
    "std::pin::Pin::as_ref",
    "std::pin::Pin::get_ref",
    "std::option::Option::as_ref",
    "std::option::Option::as_mut",
    "std::option::Option::as_deref",
    "std::option::Option::as_deref_mut",
    "std::clone::Clone::clone",
    "std::convert::Into::into",
    "std::convert::From::from",
    "std::future::IntoFuture::into_future",
    "std::iter::IntoIterator::into_iter",
    "std::vec::Vec::as_slice",
    "std::vec::Vec::as_mut_slice",
    "std::mem::MaybeUninit::assume_init_mut",
}


class Call:
    __slots__ = ("body", "blk", "t", "callee", "declared", "trait", "self_ty", "name", "args", "dest", "sp", "exp", "target", "fn", "kind", "res_kind", "impl_self")

    def __init__(self, body, blk, t):
        self.body = body
        self.blk = blk
        self.t = t
        f = t["f"]
        self.kind = f["kind"]
        self.fn = f.get("fn")
        self.args = t["args"]
        self.dest = t["dest"]
        self.sp = t["sp"]
        self.exp = t.get("exp")
        self.target = t["t"]
        if self.fn:
            self.declared = strip_generics(self.fn["path"])
            self.callee = strip_generics(self.fn.get("res") or self.fn["path"])
            self.trait = self.fn.get("trait")
            self.self_ty = self.fn.get("self_ty")
            self.impl_self = self.fn.get("impl_self")
            self.name = self.fn.get("name") or self.declared.rsplit("::", 1)[-1]
            self.res_kind = self.fn.get("res_kind")
        else:
            self.declared = self.callee = "<indirect>"
            self.trait = self.self_ty = self.impl_self = None
            self.name = "<indirect>"
            self.res_kind = None

    def is_(self, *names):
        return self.callee in names or self.declared in names

    def matches(self, rx):
        return re.search(rx, self.callee) is not None or re.search(rx, self.declared) is not None

    @property
    def line(self):
        return self.sp

    def recv(self, deep=True):
        if not self.args:
            return None
        return self.body.opath(self.args[0], deep=deep)

    def argpath(self, i, deep=True):
        if i >= len(self.args):
            return None
        return self.body.opath(self.args[i], deep=deep)

    def __repr__(self):
        return "Call(%s @%s bb%d)" % (self.callee, self.sp, self.blk)


class Body:
    def __init__(self, rec):
        self.rec = rec
        self.path = rec["path"]
        self.kind = rec["kind"]
        self.root = rec.get("root", self.path)
        self.blocks = rec["blocks"]
        self.locals = rec["locals"]
        self.n = len(self.blocks)
        self.impl_self = rec.get("impl_self")
        self.impl_trait = rec.get("impl_trait")
        self.name = rec.get("name")
        self.span = rec.get("span")
        self.file = self.span.split(":")[0] if self.span else ""
        self._succ = None
        self._pred = None
        self._defs = None
        self._calls = None
        self._idom = None
        self._names = None
        self._uses = None

    # ---------------------------------------------------------------- CFG
    def term(self, b):
        return self.blocks[b]["t"]

    def edges(self, b, unwind=False):
        """list of (target, label)"""
        t = self.blocks[b]["t"]
        k = t["k"]
        out = []
        if k == "goto":
            out.append((t["t"], "goto"))
        elif k == "switch":
            for v, tb in t["targets"]:
                out.append((tb, v))
            out.append((t["otherwise"], "otherwise"))
        elif k in ("call", "drop", "assert"):
            if t.get("t") is not None:
                out.append((t["t"], "next"))
        elif k == "yield":
            out.append((t["t"], "resume"))
        elif k == "asm":
            for tb in t["targets"]:
                out.append((tb, "next"))
        if unwind:
            u = t.get("u")
            if u is not None:
                out.append((u, "unwind"))
            if k == "yield" and t.get("drop") is not None:
                out.append((t["drop"], "drop"))
        return out

    @property
    def succ(self):
        if self._succ is None:
            self._succ = [[tb for tb, _ in self.edges(b)] for b in range(self.n)]
        return self._succ

    @property
    def pred(self):
        if self._pred is None:
            p = [[] for _ in range(self.n)]
            for b in range(self.n):
                for s in self.succ[b]:
                    p[s].append(b)
            self._pred = p
        return self._pred

    def reachable(self, starts, avoid_blocks=(), avoid_edges=(), include_start=True):
        """Blocks reachable from `starts` along normal edges, never entering a
        block in avoid_blocks and never taking an edge (b, label) in
        avoid_edges."""
        avoid_blocks = set(avoid_blocks)
        avoid_edges = set(avoid_edges)
        seen = set()
        dq = deque()
        for s in starts:
            if s in avoid_blocks:
                continue
            if include_start:
                seen.add(s)
            dq.append(s)
        visited_from = set(starts)
        while dq:
            b = dq.popleft()
            for tb, lab in self.edges(b):
                if (b, lab) in avoid_edges or tb in avoid_blocks:
                    continue
                if tb not in seen:
                    seen.add(tb)
                    if tb not in visited_from or True:
                        dq.append(tb)
        return seen

    def live_blocks(self):
        return self.reachable([0])

    @property
    def idom(self):
        if self._idom is None:
            self._idom = self._compute_idom()
        return self._idom

    def _compute_idom(self):
        # Cooper-Harvey-Kennedy
        order = []
        seen = set()
        stack = [(0, iter(self.succ[0]))]
        seen.add(0)
        while stack:
            b, it = stack[-1]
            adv = False
            for s in it:
                if s not in seen:
                    seen.add(s)
                    stack.append((s, iter(self.succ[s])))
                    adv = True
                    break
            if not adv:
                order.append(b)
                stack.pop()
        rpo = list(reversed(order))
        idx = {b: i for i, b in enumerate(rpo)}
        idom = {0: 0}
        changed = True
        while changed:
            changed = False
            for b in rpo[1:]:
                new = None
                for p in self.pred[b]:
                    if p in idom:
                        if new is None:
                            new = p
                        else:
                            f1, f2 = p, new
                            while f1 != f2:
                                while idx[f1] > idx[f2]:
                                    f1 = idom[f1]
                                while idx[f2] > idx[f1]:
                                    f2 = idom[f2]
                            new = f1
                if new is not None and idom.get(b) != new:
                    idom[b] = new
                    changed = True
        return idom

    def dominators(self, b):
        """blocks that dominate b (including b), innermost first"""
        out = []
        idom = self.idom
        if b not in idom:
            return out
        cur = b
        while True:
            out.append(cur)
            if cur == 0:
                break
            cur = idom[cur]
        return out

    def dominates(self, a, b):
        return a in self.dominators(b)

    def edge_dominates(self, s, label, b):
        """every path entry -> b takes edge (s,label)"""
        if b == s:
            return False
        r = self.reachable([0], avoid_edges=[(s, label)])
        return b not in r

    def guards(self, b):
        """[(switch_block, label)] for every switch edge that dominates b."""
        out = []
        for s in self.dominators(b):
            if s == b:
                continue
            t = self.term(s)
            if t["k"] != "switch":
                continue
            labels = [v for v, _ in t["targets"]] + ["otherwise"]
            for lab in labels:
                if self.edge_dominates(s, lab, b):
                    out.append((s, lab))
        return out

    # ------------------------------------------------------------ def-use
    @property
    def defs(self):
        if self._defs is None:
            d = defaultdict(list)
            for b, blk in enumerate(self.blocks):
                for i, st in enumerate(blk["st"]):
                    if st["k"] == "assign":
                        p = st["p"]
                        d[p["l"]].append(("assign", b, i, st))
                t = blk["t"]
                if t["k"] == "call":
                    d[t["dest"]["l"]].append(("call", b, None, t))
                elif t["k"] == "yield":
                    d[t["resume_arg"]["l"]].append(("yield", b, None, t))
            self._defs = d
        return self._defs

    @property
    def names(self):
        """local -> debug name (only for debug entries that are bare locals);
        also rendered upvar place -> name"""
        if self._names is None:
            m = {}
            up = {}
            for d in self.rec.get("debug", []):
                p = d["p"]
                if not p["pr"]:
                    m.setdefault(p["l"], d["name"])
                else:
                    up[p["s"]] = d["name"]
            self._names = (m, up)
        return self._names

    def whole_defs(self, l):
        """definitions that assign the whole local (no projection)"""
        out = []
        for d in self.defs.get(l, []):
            if d[0] == "assign":
                if not d[3]["p"]["pr"]:
                    out.append(d)
            elif d[0] == "call":
                if not d[3]["dest"]["pr"]:
                    out.append(d)
            else:
                out.append(d)
        return out

    def local_path(self, l, deep=True, depth=0, seen=None):
        names, _ = self.names
        if l in names and not deep:
            return names[l]
        if depth > 16:
            return names.get(l, "_%d" % l)
        seen = seen or set()
        if l in seen:
            return names.get(l, "_%d" % l)
        seen = seen | {l}
        ds = self.whole_defs(l)
        if len(ds) == 1:
            d = ds[0]
            if d[0] == "assign":
                rv = d[3]["r"]
                k = rv["k"]
                if k in ("use", "cast"):
                    o = rv["o"]
                    if o["c"] in ("copy", "move"):
                        sub = self.place_path(o["p"], deep, depth + 1, seen)
                        if l in names and sub.startswith("_") and not sub.startswith("_1.^"):
                            return names[l]
                        return sub
                    if l in names:
                        return names[l]
                    return "const"
                if k in ("ref", "copyderef", "rawptr"):
                    sub = self.place_path(rv["p"], deep, depth + 1, seen)
                    if l in names and sub.startswith("_") and not sub.startswith("_1.^"):
                        return names[l]
                    return sub
            elif d[0] == "call" and l not in names:
                c = Call(self, d[1], d[3])
                if c.declared in IDENTITY_CALLS and c.args:
                    a = c.args[0]
                    if a["c"] in ("copy", "move"):
                        return self.place_path(a["p"], deep, depth + 1, seen)
                if c.args and c.args[0]["c"] in ("copy", "move"):
                    return "%s(%s)" % (c.callee, self.place_path(c.args[0]["p"], deep, depth + 1, seen))
                return "%s()" % c.callee
        return names.get(l, "_%d" % l)

    def place_path(self, p, deep=True, depth=0, seen=None):
        base = self.local_path(p["l"], deep, depth, seen)
        for e in p["pr"]:
            k = e[0]
            if k == "field":
                base = "%s.%s" % (base, e[2])
            elif k == "downcast":
                base = "%s@%s" % (base, e[1])
            elif k in ("index", "cindex", "subslice"):
                base = base + "[]"
        return normalize_path(base)

    def opath(self, o, deep=True):
        if o["c"] in ("copy", "move"):
            return self.place_path(o["p"], deep)
        if o["c"] == "const":
            if "int" in o:
                return "const:%d" % o["int"]
            if "item" in o:
                return "const:" + o["item"]
            return "const"
        return "?"

    def const_int(self, o, depth=0):
        """integer value of an operand if it is (a copy of) a constant"""
        if o["c"] == "const":
            return o.get("int")
        if o["c"] in ("copy", "move") and not o["p"]["pr"] and depth < 6:
            ds = self.whole_defs(o["p"]["l"])
            if len(ds) == 1 and ds[0][0] == "assign":
                rv = ds[0][3]["r"]
                if rv["k"] in ("use", "cast"):
                    return self.const_int(rv["o"], depth + 1)
        return None

    # -------------------------------------------------------------- calls
    @property
    def calls(self):
        if self._calls is None:
            self._calls = [Call(self, b, blk["t"]) for b, blk in enumerate(self.blocks) if blk["t"]["k"] == "call"]
        return self._calls

    def calls_matching(self, rx):
        return [c for c in self.calls if c.matches(rx)]

    def yields(self):
        return [b for b in range(self.n) if self.term(b)["k"] == "yield"]

    def returns(self):
        return [b for b in range(self.n) if self.term(b)["k"] == "return"]

    def statements(self):
        for b, blk in enumerate(self.blocks):
            for i, st in enumerate(blk["st"]):
                yield b, i, st

    def aggregates(self):
        for b, i, st in self.statements():
            if st["k"] == "assign" and st["r"]["k"] == "agg":
                yield b, i, st

    # ---------------------------------------------------- condition atoms
    def cond_atom(self, o, pol=True, depth=0):
        """Describe the value feeding a branch: returns (atom, polarity) where
        atom is ('call', Call) | ('cmp', op, a, b, st) | ('discr', path, ty, place) |
        ('place', path) | ('const', v)."""
        if o["c"] == "const":
            return ("const", o.get("int")), pol
        if o["c"] not in ("copy", "move"):
            return ("?",), pol
        p = o["p"]
        if p["pr"] or depth > 12:
            return ("place", self.place_path(p), p), pol
        ds = self.whole_defs(p["l"])
        if len(ds) != 1:
            return ("place", self.place_path(p), p), pol
        d = ds[0]
        if d[0] == "assign":
            rv = d[3]["r"]
            k = rv["k"]
            if k == "use":
                return self.cond_atom(rv["o"], pol, depth + 1)
            if k == "unop" and rv["op"] == "Not":
                return self.cond_atom(rv["o"], not pol, depth + 1)
            if k == "binop" and rv["op"] in ("Eq", "Ne", "Lt", "Le", "Gt", "Ge"):
                return ("cmp", rv["op"], rv["a"], rv["b"], d[3]), pol
            if k == "discr":
                return ("discr", self.place_path(rv["p"]), rv["p"]["ty"], rv["p"]), pol
            if k == "copyderef":
                return ("place", self.place_path(rv["p"]), rv["p"]), pol
            return ("rvalue", rv), pol
        if d[0] == "call":
            return ("call", Call(self, d[1], d[3])), pol
        return ("?",), pol

    def switch_atom(self, s):
        t = self.term(s)
        assert t["k"] == "switch"
        return self.cond_atom(t["d"])

    def bool_edge_label(self, s, truth):
        """label of the edge of bool switch `s` taken when the discriminant is `truth`"""
        t = self.term(s)
        vals = [v for v, _ in t["targets"]]
        if truth:
            return 1 if 1 in vals else "otherwise"
        return 0 if 0 in vals else "otherwise"


def normalize_path(p):
    # coroutine / closure upvars: `_1.^name` -> `name`
    p = re.sub(r"^_1\.\^", "", p)
    p = p.replace(".^", ".")
    return p


class Program:
    """All bodies of one configuration + call graph."""

    def __init__(self, facts):
        self.facts = facts
        self.config = facts.config
        self.bodies = {p: Body(r) for p, r in facts.bodies.items()}
        self.by_stripped = defaultdict(list)
        for p, b in self.bodies.items():
            self.by_stripped[strip_generics(p)].append(b)
        self._cg = None
        self._callers = None
        self._trait_impls = None
        self._addr_taken = None

    def body(self, stripped_path):
        l = self.by_stripped.get(stripped_path, [])
        if len(l) == 1:
            return l[0]
        if not l:
            return None
        return l[0]

    def find_bodies(self, rx):
        r = re.compile(rx)
        return [b for p, b in sorted(self.bodies.items()) if r.search(strip_generics(p))]

    def all_calls(self):
        for b in self.bodies.values():
            for c in b.calls:
                yield c

    def calls_to(self, rx):
        r = re.compile(rx)
        return [c for c in self.all_calls() if r.search(c.callee) or r.search(c.declared)]

    @property
    def trait_impls(self):
        """trait method path (stripped) -> [impl method body paths (stripped)]"""
        if self._trait_impls is None:
            m = defaultdict(list)
            for imp in self.facts.impls:
                for it in imp["items"]:
                    ti = it.get("trait_item")
                    if ti and it.get("fn"):
                        m[strip_generics(ti)].append(strip_generics(it["path"]))
            self._trait_impls = m
        return self._trait_impls

    @property
    def addr_taken(self):
        if self._addr_taken is None:
            s = set()
            for b in self.bodies.values():
                for _, _, st in b.statements():
                    if st["k"] != "assign":
                        continue
                    rv = st["r"]
                    if rv["k"] == "cast" and "ReifyFnPointer" in rv["ck"]:
                        o = rv["o"]
                        if o["c"] == "const" and "fn" in o:
                            s.add(strip_generics(o["fn"].get("res") or o["fn"]["path"]))
            self._addr_taken = s
        return self._addr_taken

    def callees_of_call(self, c):
        """stripped body paths a call may enter (crate-local only)"""
        out = []
        if c.kind != "def":
            return [p for p in self.addr_taken if p in self.by_stripped]
        if c.callee in self.by_stripped:
            out.append(c.callee)
        if c.res_kind == "virtual" or c.callee not in self.by_stripped:
            for imp in self.trait_impls.get(c.declared, []):
                if imp in self.by_stripped and imp not in out:
                    out.append(imp)
        return out

    @property
    def callgraph(self):
        if self._cg is None:
            cg = defaultdict(set)
            for b in self.bodies.values():
                src = strip_generics(b.path)
                for c in b.calls:
                    for t in self.callees_of_call(c):
                        cg[src].add(t)
                    # function items passed as values (map(Self::f), spawn(f))
                    for a in c.args:
                        if a["c"] == "const" and "fn" in a:
                            t = strip_generics(a["fn"].get("res") or a["fn"]["path"])
                            if t in self.by_stripped:
                                cg[src].add(t)
                for _, _, st in b.aggregates():
                    rv = st["r"]
                    if rv.get("ak") in ("closure", "coroutine", "coroutine_closure"):
                        t = strip_generics(rv["def"])
                        if t in self.by_stripped:
                            cg[src].add(t)
            self._cg = cg
        return self._cg

    @property
    def callers(self):
        if self._callers is None:
            r = defaultdict(set)
            for s, ts in self.callgraph.items():
                for t in ts:
                    r[t].add(s)
            self._callers = r
        return self._callers

    def reach(self, roots, avoid=()):
        avoid = set(avoid)
        seen = set()
        dq = deque(r for r in roots if r not in avoid)
        seen.update(dq)
        while dq:
            x = dq.popleft()
            for t in self.callgraph.get(x, ()):
                if t not in seen and t not in avoid:
                    seen.add(t)
                    dq.append(t)
        return seen

    def reach_back(self, targets):
        seen = set(targets)
        dq = deque(targets)
        while dq:
            x = dq.popleft()
            for t in self.callers.get(x, ()):
                if t not in seen:
                    seen.add(t)
                    dq.append(t)
        return seen

    def adt(self, path):
        return self.facts.adts.get(path)

    def const_int(self, path):
        c = self.facts.consts.get(path)
        return None if c is None else c.get("int")
