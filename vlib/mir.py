"""CFG / def-use / access-path / call-graph utilities over the driver's facts."""
import re
from collections import defaultdict, deque


def strip_generics(p):
    """`std::vec::Vec::<T, A>::push` -> `std::vec::Vec::push` (balanced <>), but
    keeps a leading `<T as Trait>` qualified-self segment."""
    out = []
    depth = 0
    i = 0
    n = len(p)
    while i < n:
        c = p[i]
        if c == "<":
            if depth == 0 and i >= 2 and p[i - 2 : i] == "::":
                # generic argument list: skip to the matching '>'
                d = 0
                j = i
                while j < n:
                    if p[j] == "<":
                        d += 1
                    elif p[j] == ">" and (j == 0 or p[j - 1] != "-"):
                        d -= 1
                        if d == 0:
                            break
                    j += 1
                # drop the preceding '::'
                if out and out[-1] == ":" and len(out) >= 2 and out[-2] == ":":
                    out.pop()
                    out.pop()
                i = j + 1
                continue
            depth += 1
        elif c == ">" and (i == 0 or p[i - 1] != "-"):
            depth = max(0, depth - 1)
        out.append(c)
        i += 1
    return "".join(out)


IDENTITY_CALLS = {
    "std::ops::Deref::deref",
    "std::ops::DerefMut::deref_mut",
    "std::convert::AsRef::as_ref",
    "std::convert::AsMut::as_mut",
    "std::borrow::Borrow::borrow",
    "std::borrow::BorrowMut::borrow_mut",
    "std::pin::Pin::new",
    "std::pin::Pin::new_unchecked",
    "std::pin::Pin::as_mut",
    "std::pin::Pin::get_mut",
    "std::pin::Pin::get_unchecked_mut",
    "std::pin::Pin::as_ref",
    "std::pin::Pin::get_ref",
    "std::option::Option::as_ref",
    "std::option::Option::as_mut",
    "std::option::Option::as_deref",
    "std::option::Option::as_deref_mut",
    "std::clone::Clone::clone",
    "std::convert::Into::into",
    "std::convert::From::from",
    "std::future::IntoFuture::into_future",
    "std::iter::IntoIterator::into_iter",
    "std::vec::Vec::as_slice",
    "std::vec::Vec::as_mut_slice",
    "std::mem::MaybeUninit::assume_init_mut",
}


FRESH_VALUE_CALL = re.compile(r"^(get_[ui]\d+(_le|_ne)?|next|pop(_front|_back)?|try_recv|recv|copy_to_bytes|split_to|split_off|take|remove|swap_remove|read_u\d+)$")


class Call:
    __slots__ = ("body", "blk", "t", "callee", "declared", "trait", "self_ty", "name", "args", "dest", "sp", "exp", "target", "fn", "kind", "res_kind", "impl_self")

    def __init__(self, body, blk, t):
        self.body = body
        self.blk = blk
        self.t = t
        f = t["f"]
        self.kind = f["kind"]
        self.fn = f.get("fn")
        self.args = t["args"]
        self.dest = t["dest"]
        self.sp = t["sp"]
        self.exp = t.get("exp")
        self.target = t["t"]
        if self.fn:
            self.declared = strip_generics(self.fn["path"])
            self.callee = strip_generics(self.fn.get("res") or self.fn["path"])
            self.trait = self.fn.get("trait")
            self.self_ty = self.fn.get("self_ty")
            self.impl_self = self.fn.get("impl_self")
            self.name = self.fn.get("name") or self.declared.rsplit("::", 1)[-1]
            self.res_kind = self.fn.get("res_kind")
        else:
            self.declared = self.callee = "<indirect>"
            self.trait = self.self_ty = self.impl_self = None
            self.name = "<indirect>"
            self.res_kind = None

    def is_(self, *names):
        return self.callee in names or self.declared in names

    def matches(self, rx):
        return re.search(rx, self.callee) is not None or re.search(rx, self.declared) is not None

    @property
    def line(self):
        return self.sp

    def recv(self, deep=True):
        if not self.args:
            return None
        return self.body.opath(self.args[0], deep=deep)

    def argpath(self, i, deep=True):
        if i >= len(self.args):
            return None
        return self.body.opath(self.args[i], deep=deep)

    def __repr__(self):
        return "Call(%s @%s bb%d)" % (self.callee, self.sp, self.blk)


class Body:
    def __init__(self, rec):
        self.rec = rec
        self.path = rec["path"]
        self.kind = rec["kind"]
        self.root = rec.get("root", self.path)
        self.blocks = rec["blocks"]
        self.locals = rec["locals"]
        self.n = len(self.blocks)
        self.impl_self = rec.get("impl_self")
        self.impl_trait = rec.get("impl_trait")
        self.name = rec.get("name")
        self.span = rec.get("span")
        self.file = self.span.split(":")[0] if self.span else ""
        self._succ = None
        self._pred = None
        self._defs = None
        self._calls = None
        self._idom = None
        self._names = None
        self._uses = None

    # ---------------------------------------------------------------- CFG
    def term(self, b):
        return self.blocks[b]["t"]

    def edges(self, b, unwind=False):
        """list of (target, label)"""
        t = self.blocks[b]["t"]
        k = t["k"]
        out = []
        if k == "goto":
            out.append((t["t"], "goto"))
        elif k == "switch":
            for v, tb in t["targets"]:
                out.append((tb, v))
            out.append((t["otherwise"], "otherwise"))
        elif k in ("call", "drop", "assert"):
            if t.get("t") is not None:
                out.append((t["t"], "next"))
        elif k == "yield":
            out.append((t["t"], "resume"))
        elif k == "asm":
            for tb in t["targets"]:
                out.append((tb, "next"))
        if unwind:
            u = t.get("u")
            if u is not None:
                out.append((u, "unwind"))
            if k == "yield" and t.get("drop") is not None:
                out.append((t["drop"], "drop"))
        return out

    @property
    def succ(self):
        if self._succ is None:
            self._succ = [[tb for tb, _ in self.edges(b)] for b in range(self.n)]
        return self._succ

    @property
    def pred(self):
        if self._pred is None:
            p = [[] for _ in range(self.n)]
            for b in range(self.n):
                for s in self.succ[b]:
                    p[s].append(b)
            self._pred = p
        return self._pred

    def reachable(self, starts, avoid_blocks=(), avoid_edges=(), include_start=True):
        """Blocks reachable from `starts` along normal edges, never entering a
        block in avoid_blocks and never taking an edge (b, label) in
        avoid_edges."""
        avoid_blocks = set(avoid_blocks)
        avoid_edges = set(avoid_edges)
        seen = set()
        dq = deque()
        for s in starts:
            if s in avoid_blocks:
                continue
            if include_start:
                seen.add(s)
            dq.append(s)
        visited_from = set(starts)
        while dq:
            b = dq.popleft()
            for tb, lab in self.edges(b):
                if (b, lab) in avoid_edges or tb in avoid_blocks:
                    continue
                if tb not in seen:
                    seen.add(tb)
                    if tb not in visited_from or True:
                        dq.append(tb)
        return seen

    def live_blocks(self):
        return self.reachable([0])

    @property
    def idom(self):
        if self._idom is None:
            self._idom = self._compute_idom()
        return self._idom

    def _compute_idom(self):
        # Cooper-Harvey-Kennedy
        order = []
        seen = set()
        stack = [(0, iter(self.succ[0]))]
        seen.add(0)
        while stack:
            b, it = stack[-1]
            adv = False
            for s in it:
                if s not in seen:
                    seen.add(s)
                    stack.append((s, iter(self.succ[s])))
                    adv = True
                    break
            if not adv:
                order.append(b)
                stack.pop()
        rpo = list(reversed(order))
        idx = {b: i for i, b in enumerate(rpo)}
        idom = {0: 0}
        changed = True
        while changed:
            changed = False
            for b in rpo[1:]:
                new = None
                for p in self.pred[b]:
                    if p in idom:
                        if new is None:
                            new = p
                        else:
                            f1, f2 = p, new
                            while f1 != f2:
                                while idx[f1] > idx[f2]:
                                    f1 = idom[f1]
                                while idx[f2] > idx[f1]:
                                    f2 = idom[f2]
                            new = f1
                if new is not None and idom.get(b) != new:
                    idom[b] = new
                    changed = True
        return idom

    def dominators(self, b):
        """blocks that dominate b (including b), innermost first"""
        out = []
        idom = self.idom
        if b not in idom:
            return out
        cur = b
        while True:
            out.append(cur)
            if cur == 0:
                break
            cur = idom[cur]
        return out

    def dominates(self, a, b):
        return a in self.dominators(b)

    def edge_dominates(self, s, label, b):
        """every path entry -> b takes edge (s,label)"""
        if b == s:
            return False
        r = self.reachable([0], avoid_edges=[(s, label)])
        return b not in r

    def guards(self, b):
        """[(switch_block, label)] for every switch edge that dominates b."""
        out = []
        for s in self.dominators(b):
            if s == b:
                continue
            t = self.term(s)
            if t["k"] != "switch":
                continue
            labels = [v for v, _ in t["targets"]] + ["otherwise"]
            for lab in labels:
                if self.edge_dominates(s, lab, b):
                    out.append((s, lab))
        return out

    # ------------------------------------------------------------ def-use
    @property
    def defs(self):
        if self._defs is None:
            d = defaultdict(list)
            for b, blk in enumerate(self.blocks):
                for i, st in enumerate(blk["st"]):
                    if st["k"] == "assign":
                        p = st["p"]
                        d[p["l"]].append(("assign", b, i, st))
                t = blk["t"]
                if t["k"] == "call":
                    d[t["dest"]["l"]].append(("call", b, None, t))
                elif t["k"] == "yield":
                    d[t["resume_arg"]["l"]].append(("yield", b, None, t))
            self._defs = d
        return self._defs

    @property
    def names(self):
        """local -> debug name (only for debug entries that are bare locals);
        also rendered upvar place -> name"""
        if self._names is None:
            m = {}
            up = {}
            for d in self.rec.get("debug", []):
                p = d["p"]
                if not p["pr"]:
                    m.setdefault(p["l"], d["name"])
                else:
                    up[p["s"]] = d["name"]
            self._names = (m, up)
        return self._names

    def whole_defs(self, l):
        """definitions that assign the whole local (no projection)"""
        out = []
        for d in self.defs.get(l, []):
            if d[0] == "assign":
                if not d[3]["p"]["pr"]:
                    out.append(d)
            elif d[0] == "call":
                if not d[3]["dest"]["pr"]:
                    out.append(d)
            else:
                out.append(d)
        return out

    def provenance_all(self, o):
        """provenance with every call argument rendered (`f(a, b)`), not only the receiver"""
        self._allargs = True
        try:
            return self.provenance(o)
        finally:
            self._allargs = False

    _allargs = False

    def provenance(self, o, uid=False):
        """like opath but expands named locals through their single defining call.
        uid=True tags every non-identity call with its block (`get_u8#bb7(..)`), so that values
        produced by two different calls of the same function are not confused."""
        if o["c"] in ("copy", "move"):
            self._prov = True
            self._uid = uid
            try:
                return self.place_path(o["p"], True)
            finally:
                self._prov = False
                self._uid = False
        return self.opath(o)

    _prov = False
    _uid = False

    def provenance_u(self, o):
        return self.provenance(o, uid=True)

    def local_path(self, l, deep=True, depth=0, seen=None):
        names, _ = self.names
        if l in names and not deep:
            return names[l]
        if depth > 16:
            return names.get(l, "_%d" % l)
        seen = seen or set()
        if l in seen:
            return names.get(l, "_%d" % l)
        seen = seen | {l}
        ds = self.whole_defs(l)
        if len(ds) == 1:
            d = ds[0]
            if d[0] == "assign":
                rv = d[3]["r"]
                k = rv["k"]
                if k in ("use", "cast"):
                    o = rv["o"]
                    if o["c"] in ("copy", "move"):
                        sub = self.place_path(o["p"], deep, depth + 1, seen)
                        if l in names and sub.startswith("_") and not sub.startswith("_1.^"):
                            return names[l]
                        return sub
                    if l in names and not self._prov:
                        return names[l]
                    if o["c"] == "const" and ("int" in o or "item" in o or "promoted" in o):
                        return self.const_name(o)
                    if l in names:
                        return names[l]
                    return "const"
                if k in ("ref", "copyderef", "rawptr"):
                    sub = self.place_path(rv["p"], deep, depth + 1, seen)
                    if l in names and sub.startswith("_") and not sub.startswith("_1.^"):
                        return names[l]
                    return sub
                if self._prov and k == "binop":
                    op = rv["op"].replace("WithOverflow", "").replace("Unchecked", "")
                    return "%s(%s,%s)" % (op, self._opath_d(rv["a"], depth + 1, seen), self._opath_d(rv["b"], depth + 1, seen))
                if self._prov and k == "unop":
                    return "%s(%s)" % (rv["op"], self._opath_d(rv["o"], depth + 1, seen))
                if self._prov and k == "agg" and rv.get("ak") == "adt":
                    return "%s{%s}" % (rv["adt"].rsplit("::", 1)[-1], ",".join(self._opath_d(o, depth + 1, seen) for o in rv["ops"]))
            elif d[0] == "call" and (l not in names or self._prov):
                c = Call(self, d[1], d[3])
                if c.declared in IDENTITY_CALLS and c.args:
                    a = c.args[0]
                    if a["c"] in ("copy", "move"):
                        return self.place_path(a["p"], deep, depth + 1, seen)
                tag = ("#bb%d" % d[1]) if (self._uid and FRESH_VALUE_CALL.match(c.name or "")) else ""
                if self._allargs and c.args:
                    return "%s%s(%s)" % (c.callee, tag, ", ".join(self._opath_d(a, depth + 1, seen) for a in c.args))
                if c.args and c.args[0]["c"] in ("copy", "move"):
                    return "%s%s(%s)" % (c.callee, tag, self.place_path(c.args[0]["p"], deep, depth + 1, seen))
                return "%s%s()" % (c.callee, tag)
        return names.get(l, "_%d" % l)

    def place_path(self, p, deep=True, depth=0, seen=None):
        pr = p["pr"]
        # `(a, b) = (x, y)` : a field of a locally built tuple/struct is the operand it was built from
        if deep and pr and pr[0][0] == "field" and depth < 16:
            ds = self.whole_defs(p["l"])
            if len(ds) == 1 and ds[0][0] == "assign" and ds[0][3]["r"]["k"] == "agg" and ds[0][3]["r"].get("ak") in ("tuple", "adt") and not ds[0][3]["r"].get("variant", "").startswith("__"):
                ops = ds[0][3]["r"]["ops"]
                idx = pr[0][1]
                if idx < len(ops) and ops[idx]["c"] in ("copy", "move") and (ds[0][3]["r"].get("ak") == "tuple"):
                    inner = ops[idx]["p"]
                    return self.place_path({"l": inner["l"], "pr": list(inner["pr"]) + list(pr[1:]), "s": "", "ty": p.get("ty", "")}, deep, depth + 1, seen)
        base = self.local_path(p["l"], deep, depth, seen)
        for e in p["pr"]:
            k = e[0]
            if k == "field":
                if self._prov and e[2] == "0" and re.match(r"^(Add|Sub|Mul|Shl|Shr)\(", base):
                    continue
                base = "%s.%s" % (base, e[2])
            elif k == "downcast":
                base = "%s@%s" % (base, e[1])
            elif k in ("index", "cindex", "subslice"):
                base = base + "[]"
        return normalize_path(base)

    def const_name(self, o):
        """rendering of a constant operand; promoted constants are resolved to the items they are built from"""
        if "int" in o:
            return "const:%d" % o["int"]
        if "promoted" in o and isinstance(o["promoted"], int):
            pl = self.rec.get("promoted") or []
            if o["promoted"] < len(pl):
                pr = pl[o["promoted"]]
                if pr.get("items"):
                    return "const:" + pr["items"][-1]
                if pr.get("ints"):
                    return "const:%s" % pr["ints"][-1]
        if "item" in o:
            return "const:" + o["item"]
        return "const"

    def _opath_d(self, o, depth, seen):
        if o["c"] in ("copy", "move"):
            return self.place_path(o["p"], True, depth, seen)
        if o["c"] == "const":
            return self.const_name(o)
        return "?"

    def opath(self, o, deep=True):
        if o["c"] in ("copy", "move"):
            return self.place_path(o["p"], deep)
        if o["c"] == "const":
            return self.const_name(o)
        return "?"

    def eval_ints(self, o, depth=0):
        """finite set of integer values an operand may hold (constants joined over branches, + - *), or None"""
        if depth > 8:
            return None
        if o["c"] == "const":
            return {o["int"]} if "int" in o else None
        if o["c"] not in ("copy", "move"):
            return None
        p = o["p"]
        if p["pr"]:
            if len(p["pr"]) == 1 and p["pr"][0][0] == "field" and p["pr"][0][2] == "0":
                return self.eval_ints({"c": "copy", "p": {"l": p["l"], "pr": [], "s": "", "ty": ""}}, depth + 1)
            return None
        out = set()
        ds = self.whole_defs(p["l"])
        if not ds:
            return None
        for d in ds:
            if d[0] != "assign":
                return None
            rv = d[3]["r"]
            if rv["k"] in ("use", "cast"):
                v = self.eval_ints(rv["o"], depth + 1)
            elif rv["k"] == "binop" and rv["op"].replace("WithOverflow", "").replace("Unchecked", "") in ("Add", "Sub", "Mul"):
                a, b = self.eval_ints(rv["a"], depth + 1), self.eval_ints(rv["b"], depth + 1)
                if a is None or b is None:
                    return None
                op = rv["op"].replace("WithOverflow", "").replace("Unchecked", "")
                v = set()
                for x in a:
                    for y in b:
                        v.add(x + y if op == "Add" else x - y if op == "Sub" else x * y)
            else:
                return None
            if v is None or len(v) > 8:
                return None
            out |= v
        return out or None

    def const_int(self, o, depth=0):
        """integer value of an operand if it is (a copy of) a constant or constant arithmetic"""
        if o["c"] == "const":
            return o.get("int")
        vs = self.eval_ints(o)
        if vs is not None and len(vs) == 1:
            return next(iter(vs))
        if o["c"] in ("copy", "move") and not o["p"]["pr"] and depth < 6:
            ds = self.whole_defs(o["p"]["l"])
            if len(ds) == 1 and ds[0][0] == "assign":
                rv = ds[0][3]["r"]
                if rv["k"] in ("use", "cast"):
                    return self.const_int(rv["o"], depth + 1)
        return None

    # -------------------------------------------------------------- calls
    @property
    def calls(self):
        if self._calls is None:
            self._calls = [Call(self, b, blk["t"]) for b, blk in enumerate(self.blocks) if blk["t"]["k"] == "call"]
        return self._calls

    def calls_matching(self, rx):
        return [c for c in self.calls if c.matches(rx)]

    def yields(self):
        return [b for b in range(self.n) if self.term(b)["k"] == "yield"]

    def returns(self):
        return [b for b in range(self.n) if self.term(b)["k"] == "return"]

    def statements(self):
        for b, blk in enumerate(self.blocks):
            for i, st in enumerate(blk["st"]):
                yield b, i, st

    def aggregates(self):
        for b, i, st in self.statements():
            if st["k"] == "assign" and st["r"]["k"] == "agg":
                yield b, i, st

    # ---------------------------------------------------- condition atoms
    def cond_atom(self, o, pol=True, depth=0):
        """Describe the value feeding a branch: returns (atom, polarity) where
        atom is ('call', Call) | ('cmp', op, a, b, st) | ('discr', path, ty, place) |
        ('place', path) | ('const', v)."""
        if o["c"] == "const":
            return ("const", o.get("int")), pol
        if o["c"] not in ("copy", "move"):
            return ("?",), pol
        p = o["p"]
        if p["pr"] or depth > 12:
            return ("place", self.place_path(p), p), pol
        ds = self.whole_defs(p["l"])
        if len(ds) != 1:
            return ("place", self.place_path(p), p), pol
        d = ds[0]
        if d[0] == "assign":
            rv = d[3]["r"]
            k = rv["k"]
            if k == "use":
                return self.cond_atom(rv["o"], pol, depth + 1)
            if k == "unop" and rv["op"] == "Not":
                return self.cond_atom(rv["o"], not pol, depth + 1)
            if k == "binop" and rv["op"] in ("Eq", "Ne", "Lt", "Le", "Gt", "Ge"):
                return ("cmp", rv["op"], rv["a"], rv["b"], d[3]), pol
            if k == "discr":
                return ("discr", self.place_path(rv["p"]), rv["p"]["ty"], rv["p"]), pol
            if k == "copyderef":
                return ("place", self.place_path(rv["p"]), rv["p"]), pol
            return ("rvalue", rv), pol
        if d[0] == "call":
            return ("call", Call(self, d[1], d[3])), pol
        return ("?",), pol

    def switch_atom(self, s):
        t = self.term(s)
        assert t["k"] == "switch"
        return self.cond_atom(t["d"])

    def label_for(self, s, v):
        """label of the edge switch `s` takes when its discriminant is v"""
        vals = [x for x, _ in self.term(s)["targets"]]
        return v if v in vals else "otherwise"

    def bool_edge_label(self, s, truth):
        """label of the edge of bool switch `s` taken when the discriminant is `truth`"""
        t = self.term(s)
        vals = [v for v, _ in t["targets"]]
        if truth:
            return 1 if 1 in vals else "otherwise"
        return 0 if 0 in vals else "otherwise"


def normalize_path(p):
    # coroutine / closure upvars: `_1.^name` -> `name`
    p = re.sub(r"^_1\.\^", "", p)
    p = p.replace(".^", ".")
    return p


class Program:
    """All bodies of one configuration + call graph."""

    def __init__(self, facts):
        self.facts = facts
        self.config = facts.config
        self.bodies = {p: Body(r) for p, r in facts.bodies.items()}
        self.by_stripped = defaultdict(list)
        for p, b in self.bodies.items():
            self.by_stripped[strip_generics(p)].append(b)
        self._cg = None
        self._callers = None
        self._trait_impls = None
        self._addr_taken = None

    def body(self, stripped_path):
        l = self.by_stripped.get(stripped_path, [])
        if len(l) == 1:
            return l[0]
        if not l:
            return None
        return l[0]

    def find_bodies(self, rx):
        r = re.compile(rx)
        return [b for p, b in sorted(self.bodies.items()) if r.search(strip_generics(p))]

    def all_calls(self):
        for b in self.bodies.values():
            for c in b.calls:
                yield c

    def calls_to(self, rx):
        r = re.compile(rx)
        return [c for c in self.all_calls() if r.search(c.callee) or r.search(c.declared)]

    @property
    def trait_impls(self):
        """trait method path (stripped) -> [impl method body paths (stripped)]"""
        if self._trait_impls is None:
            m = defaultdict(list)
            for imp in self.facts.impls:
                for it in imp["items"]:
                    ti = it.get("trait_item")
                    if ti and it.get("fn"):
                        m[strip_generics(ti)].append(strip_generics(it["path"]))
            self._trait_impls = m
        return self._trait_impls

    @property
    def addr_taken(self):
        if self._addr_taken is None:
            s = set()
            for b in self.bodies.values():
                for _, _, st in b.statements():
                    if st["k"] != "assign":
                        continue
                    rv = st["r"]
                    if rv["k"] == "cast" and "ReifyFnPointer" in rv["ck"]:
                        o = rv["o"]
                        if o["c"] == "const" and "fn" in o:
                            s.add(strip_generics(o["fn"].get("res") or o["fn"]["path"]))
            self._addr_taken = s
        return self._addr_taken

    def callees_of_call(self, c):
        """stripped body paths a call may enter (crate-local only)"""
        out = []
        if c.kind != "def":
            return [p for p in self.addr_taken if p in self.by_stripped]
        if c.callee in self.by_stripped:
            out.append(c.callee)
        unresolved = c.fn is not None and c.trait is not None and (c.fn.get("res") is None or c.res_kind == "virtual")
        if unresolved:
            for imp in self.trait_impls.get(c.declared, []):
                if imp in self.by_stripped and imp not in out:
                    out.append(imp)
        return out

    @property
    def callgraph(self):
        if self._cg is None:
            cg = defaultdict(set)
            for b in self.bodies.values():
                src = strip_generics(b.path)
                for c in b.calls:
                    for t in self.callees_of_call(c):
                        cg[src].add(t)
                    # function items passed as values (map(Self::f), spawn(f))
                    for a in c.args:
                        if a["c"] == "const" and "fn" in a:
                            t = strip_generics(a["fn"].get("res") or a["fn"]["path"])
                            if t in self.by_stripped:
                                cg[src].add(t)
                for _, _, st in b.aggregates():
                    rv = st["r"]
                    if rv.get("ak") in ("closure", "coroutine", "coroutine_closure"):
                        t = strip_generics(rv["def"])
                        if t in self.by_stripped:
                            cg[src].add(t)
            self._cg = cg
        return self._cg

    @property
    def callers(self):
        if self._callers is None:
            r = defaultdict(set)
            for s, ts in self.callgraph.items():
                for t in ts:
                    r[t].add(s)
            self._callers = r
        return self._callers

    def reach(self, roots, avoid=()):
        avoid = set(avoid)
        seen = set()
        dq = deque(r for r in roots if r not in avoid)
        seen.update(dq)
        while dq:
            x = dq.popleft()
            for t in self.callgraph.get(x, ()):
                if t not in seen and t not in avoid:
                    seen.add(t)
                    dq.append(t)
        return seen

    def reach_back(self, targets):
        seen = set(targets)
        dq = deque(targets)
        while dq:
            x = dq.popleft()
            for t in self.callers.get(x, ()):
                if t not in seen:
                    seen.add(t)
                    dq.append(t)
        return seen

    def adt(self, path):
        return self.facts.adts.get(path)

    def const_int(self, path):
        c = self.facts.consts.get(path)
        return None if c is None else c.get("int")


# ---------------------------------------------------------------------------
# tokio::select! awareness and guard computation
# ---------------------------------------------------------------------------
class SelectInfo:
    """One expansion of tokio::select! inside a body.

    Trusted summary of the macro: arm k's future is polled, and arm k's handler
    runs, only if the `disabled` mask bit k was NOT set by the precondition
    prologue (`if !cond_k { disabled |= 1 << k }`)."""

    def __init__(self, body, mask_local, init_block):
        self.body = body
        self.mask = mask_local
        self.init_block = init_block
        self.disable_blocks = {}  # k -> block
        self.out_switch = None
        self.arm_target = {}  # k -> handler entry block
        self.futures = {}  # k -> operand in futures_init tuple
        self.futures_block = None


def _find_selects(body):
    names, _ = body.names
    sels = []
    for l, nm in names.items():
        if nm != "disabled":
            continue
        init = None
        for d in body.whole_defs(l):
            if d[0] == "call":
                init = d[1]
        if init is None:
            continue
        s = SelectInfo(body, l, init)
        for b, blk in enumerate(body.blocks):
            shl = {}
            for st in blk["st"]:
                if st["k"] != "assign":
                    continue
                rv = st["r"]
                if rv["k"] == "binop" and rv["op"] == "Shl" and rv["a"].get("int") == 1 and rv["b"].get("int") is not None:
                    shl[st["p"]["l"]] = rv["b"]["int"]
                if rv["k"] == "binop" and rv["op"] == "BitOr" and st["p"]["l"] == l and not st["p"]["pr"]:
                    if shl:
                        s.disable_blocks[list(shl.values())[-1]] = b
        sels.append(s)
    # output switches
    out_switches = []
    for b in range(body.n):
        t = body.term(b)
        if t["k"] != "switch":
            continue
        a, _ = body.cond_atom(t["d"])
        if a[0] == "discr":
            p = a[3]
            if not p["pr"] and names.get(p["l"]) == "output":
                out_switches.append(b)
    for s in sels:
        cands = [b for b in out_switches if body.dominates(s.init_block, b)]
        if cands:
            s.out_switch = min(cands)
            t = body.term(s.out_switch)
            for v, tb in t["targets"]:
                s.arm_target[v] = tb
        # futures tuple
        for b, i, st in body.aggregates():
            if st["r"].get("ak") == "tuple" and names.get(st["p"]["l"]) == "futures_init" and body.dominates(s.init_block, b):
                if s.futures_block is None or b < s.futures_block:
                    s.futures_block = b
                    s.futures = {k: o for k, o in enumerate(st["r"]["ops"])}
    return [s for s in sels if s.out_switch is not None]


class Guard:
    __slots__ = ("s", "label", "atom", "pol", "truth", "via_select", "avoid", "listed")

    def __init__(self, body, s, label, via_select=None, avoid=()):
        self.s = s
        self.label = label
        self.atom, self.pol = body.switch_atom(s)
        t = body.term(s)
        # truth: value of the switch discriminant on this edge (bool switches)
        self.truth = None
        vals = [v for v, _ in t["targets"]]
        self.listed = vals
        if t["dty"] == "bool":
            if label == 0:
                raw = False
            elif label == 1:
                raw = True
            else:
                raw = (0 in vals)  # otherwise-edge of a [0,..] switch = true
            self.truth = raw if self.pol else (not raw)
        self.via_select = via_select
        self.avoid = tuple(avoid)

    def is_value(self, v, nvariants=2):
        """on this edge the switch discriminant equals v (explicit target, or the otherwise edge when v is
        the only value left among `nvariants`)"""
        if self.label == v:
            return True
        if self.label == "otherwise" and v not in self.listed and len(self.listed) == nvariants - 1 and 0 <= v < nvariants:
            return True
        return False

    def is_call(self, rx, recv=None):
        if self.atom[0] != "call":
            return False
        c = self.atom[1]
        if not c.matches(rx):
            return False
        if recv is not None and c.recv() != recv:
            return False
        return True


def _body_selects(self):
    if getattr(self, "_selects", None) is None:
        self._selects = _find_selects(self)
    return self._selects


def _bwd_reachable(self, targets, avoid_blocks=(), avoid_edges=()):
    avoid_blocks = set(avoid_blocks)
    avoid_edges = set(avoid_edges)
    seen = set(t for t in targets if t not in avoid_blocks)
    dq = deque(seen)
    while dq:
        b = dq.popleft()
        for p in self.pred[b]:
            if p in seen or p in avoid_blocks:
                continue
            # at least one non-avoided edge p->b
            ok = False
            for tb, lab in self.edges(p):
                if tb == b and (p, lab) not in avoid_edges:
                    ok = True
                    break
            if ok:
                seen.add(p)
                dq.append(p)
    return seen


def _edge_guards(self, b, avoid_blocks=(), upto=None):
    """switch edges that every path entry->b (avoiding avoid_blocks) takes"""
    out = []
    avoid_blocks = set(avoid_blocks)
    base = self.reachable([0], avoid_blocks=avoid_blocks)
    if b not in base:
        return out
    # candidates: switch blocks in `base` that can reach b
    back = self.bwd_reachable([b], avoid_blocks=avoid_blocks)
    for s in sorted(base & back):
        if s == b:
            continue
        t = self.term(s)
        if t["k"] != "switch":
            continue
        labels = [v for v, _ in t["targets"]] + ["otherwise"]
        for lab in labels:
            r = self.reachable([0], avoid_blocks=avoid_blocks, avoid_edges=[(s, lab)])
            if b not in r:
                out.append((s, lab))
    return out


def _guards(self, b, select_aware=True):
    """Guard objects for block b: dominating switch edges, plus (trusted select!
    summary) the precondition edges of every select arm whose handler contains b."""
    gs = [Guard(self, s, lab) for s, lab in self.edge_guards(b)]
    if select_aware:
        for sel in self.selects:
            for k, tb in sel.arm_target.items():
                if k in sel.disable_blocks and self.edge_dominates(sel.out_switch, k, b):
                    gs.extend(self.select_arm_guards(sel, k))
    return gs


def _select_arm_guards(self, sel, k):
    d = sel.disable_blocks.get(k)
    if d is None:
        return []
    out = []
    seen = set()
    for s, lab in self.edge_guards(sel.out_switch, avoid_blocks=[d]):
        # only the edges that are not guards anyway (precondition prologue)
        if (s, lab) in seen:
            continue
        seen.add((s, lab))
        out.append(Guard(self, s, lab, via_select=(sel, k), avoid=[d]))
    return out


def _between(self, guard, b):
    """blocks on some path from the guard edge to b that does not re-evaluate
    the guard (and, for select-arm guards, does not disable the arm)"""
    tgt = [tb for tb, lab in self.edges(guard.s) if lab == guard.label]
    avoid = set(guard.avoid) | {guard.s}
    f = self.reachable(tgt, avoid_blocks=avoid)
    r = self.bwd_reachable([b], avoid_blocks=avoid)
    return f & r


Body.selects = property(_body_selects)
Body.bwd_reachable = _bwd_reachable
Body.edge_guards = _edge_guards
Body.guards = _guards
Body.select_arm_guards = _select_arm_guards
Body.between = _between


# ---------------------------------------------------------------------------
# .await points
# ---------------------------------------------------------------------------
class Await:
    __slots__ = ("body", "into_future_blk", "poll_blk", "yield_blk", "ready_blk", "awaitee", "src", "sp")


def _awaits(self):
    """list of Await: one per `.await` in this coroutine body"""
    if getattr(self, "_awaits", None) is not None:
        return self._awaits
    out = []
    for c in self.calls:
        if c.declared != "std::future::IntoFuture::into_future" or not (c.exp or "").startswith("desugar:Await"):
            continue
        a = Await()
        a.body = self
        a.into_future_blk = c.blk
        a.sp = c.sp
        a.src = c  # the into_future call; its arg is the awaited future
        a.poll_blk = a.yield_blk = a.ready_blk = None
        # follow forward to the poll call whose span equals this await's span
        for c2 in self.calls:
            if c2.declared in ("std::future::Future::poll", "futures::Future::poll") and c2.sp == c.sp and (c2.exp or "").startswith("desugar:Await"):
                a.poll_blk = c2.blk
                sw = c2.target
                if sw is not None and self.term(sw)["k"] == "switch":
                    for v, tb in self.term(sw)["targets"]:
                        if v == 0:
                            a.ready_blk = tb
                        elif v == 1:
                            # pending -> ... -> yield
                            cur = tb
                            for _ in range(4):
                                if self.term(cur)["k"] == "yield":
                                    a.yield_blk = cur
                                    break
                                nx = self.succ[cur]
                                if len(nx) != 1:
                                    break
                                cur = nx[0]
                break
        out.append(a)
    self._awaits = out
    return out


def _awaited_call(self, aw):
    """the Call that produced the awaited future (or None)"""
    o = aw.src.args[0]
    if o["c"] not in ("copy", "move") or o["p"]["pr"]:
        return None
    l = o["p"]["l"]
    for _ in range(8):
        ds = self.whole_defs(l)
        if len(ds) != 1:
            return None
        d = ds[0]
        if d[0] == "call":
            return Call(self, d[1], d[3])
        if d[0] == "assign" and d[3]["r"]["k"] == "use" and d[3]["r"]["o"]["c"] in ("copy", "move") and not d[3]["r"]["o"]["p"]["pr"]:
            l = d[3]["r"]["o"]["p"]["l"]
            continue
        return None
    return None


Body.awaits = _awaits
Body.awaited_call = _awaited_call


# ---------------------------------------------------------------------------
# post-dominators, value origin
# ---------------------------------------------------------------------------
def _ipdom(self):
    if getattr(self, "_ipdom_c", None) is not None:
        return self._ipdom_c
    n = self.n
    EXIT = n
    succ = [list(s) for s in self.succ] + [[]]
    live = self.live_blocks()
    for b in live:
        if not succ[b]:
            succ[b] = [EXIT]
    pred = [[] for _ in range(n + 1)]
    for b in live:
        for s in succ[b]:
            pred[s].append(b)
    # reverse graph: edges s -> b for b in pred[s]; entry = EXIT
    order = []
    seen = {EXIT}
    stack = [(EXIT, iter(pred[EXIT]))]
    while stack:
        b, it = stack[-1]
        adv = False
        for s in it:
            if s not in seen:
                seen.add(s)
                stack.append((s, iter(pred[s])))
                adv = True
                break
        if not adv:
            order.append(b)
            stack.pop()
    rpo = list(reversed(order))
    idx = {b: i for i, b in enumerate(rpo)}
    idom = {EXIT: EXIT}
    changed = True
    while changed:
        changed = False
        for b in rpo[1:]:
            new = None
            for p in succ[b]:
                if p in idom:
                    if new is None:
                        new = p
                    else:
                        f1, f2 = p, new
                        while f1 != f2:
                            while idx[f1] > idx[f2]:
                                f1 = idom[f1]
                            while idx[f2] > idx[f1]:
                                f2 = idom[f2]
                        new = f1
            if new is not None and idom.get(b) != new:
                idom[b] = new
                changed = True
    self._ipdom_c = idom
    return idom


def _value_origin(self, o, depth=0):
    """Follow by-value moves/copies (never references) back to where the value
    came from: ('place', place_json) for a projection / argument / multi-def local,
    ('call', Call), ('const', operand), ('agg', stmt), ('other', rvalue)."""
    if o["c"] == "const":
        return ("const", o)
    if o["c"] not in ("copy", "move"):
        return ("other", o)
    p = o["p"]
    if p["pr"] or depth > 16:
        return ("place", p)
    ds = self.whole_defs(p["l"])
    if len(ds) != 1:
        return ("place", p)
    d = ds[0]
    if d[0] == "call":
        return ("call", Call(self, d[1], d[3]))
    if d[0] == "assign":
        rv = d[3]["r"]
        if rv["k"] == "use":
            return self.value_origin(rv["o"], depth + 1)
        if rv["k"] == "agg":
            return ("agg", d[3])
        return ("other", rv)
    return ("place", p)


Body.ipdom = property(_ipdom)
Body.value_origin = _value_origin


# ---------------------------------------------------------------------------
# natural loops
# ---------------------------------------------------------------------------
def _loops(self):
    """[(header, set(blocks))] natural loops (back edge b->h with h dominating b), merged per header"""
    if getattr(self, "_loops_c", None) is not None:
        return self._loops_c
    live = self.live_blocks()
    per = {}
    for b in live:
        for h in self.succ[b]:
            if h in live and self.dominates(h, b):
                body = {h, b}
                st = [b]
                while st:
                    x = st.pop()
                    if x == h:
                        continue
                    for p in self.pred[x]:
                        if p in live and p not in body:
                            body.add(p)
                            st.append(p)
                per.setdefault(h, set()).update(body)
    self._loops_c = sorted(per.items(), key=lambda kv: len(kv[1]))
    return self._loops_c


def _loops_containing(self, b):
    return [(h, s) for h, s in self.loops() if b in s]


def _def_blocks(self, l):
    out = set()
    for d in self.defs.get(l, []):
        out.add(d[1])
    return out


Body.loops = _loops
Body.loops_containing = _loops_containing
Body.def_blocks = _def_blocks


# ---------------------------------------------------------------------------
# flow-sensitive small-constant evaluation (reaching definitions)
# ---------------------------------------------------------------------------
def _reaching_defs(self, l, blk, idx):
    """definitions of local `l` (whole-local assigns / call destinations) that reach statement index `idx`
    of block `blk` (idx = len(statements) means the terminator). Returns list of (blk, idx_or_None)."""
    out = []
    seen = set()

    def scan(b, upto):
        sts = self.blocks[b]["st"]
        for i in range(min(upto, len(sts)) - 1, -1, -1):
            st = sts[i]
            if st["k"] == "assign" and st["p"]["l"] == l and not st["p"]["pr"]:
                out.append((b, i))
                return True
        return False

    def from_preds(b):
        for p in self.pred[b]:
            if p in seen:
                continue
            seen.add(p)
            t = self.blocks[p]["t"]
            if t["k"] == "call" and t["dest"]["l"] == l and not t["dest"]["pr"]:
                out.append((p, None))
                continue
            if not scan(p, 10 ** 9):
                from_preds(p)

    if not scan(blk, idx):
        seen.add(blk) if False else None
        from_preds(blk)
    return out


def _values_at(self, o, blk, idx, depth=0):
    """set of small integers the operand may hold at (blk, idx), following reaching definitions through
    use / cast / BitOr / BitAnd / Add / Sub / Mul / Shl; None = unknown"""
    if depth > 12:
        return None
    if o["c"] == "const":
        return {o["int"]} if "int" in o else None
    if o["c"] not in ("copy", "move"):
        return None
    p = o["p"]
    if p["pr"]:
        if len(p["pr"]) == 1 and p["pr"][0][0] == "field" and p["pr"][0][2] == "0":
            return self.values_at({"c": "copy", "p": {"l": p["l"], "pr": [], "s": "", "ty": ""}}, blk, idx, depth + 1)
        return None
    defs = self.reaching_defs(p["l"], blk, idx)
    if not defs:
        return None
    out = set()
    for db, di in defs:
        if di is None:
            return None
        rv = self.blocks[db]["st"][di]["r"]
        k = rv["k"]
        if k in ("use", "cast"):
            v = self.values_at(rv["o"], db, di, depth + 1)
        elif k == "binop":
            op = rv["op"].replace("WithOverflow", "").replace("Unchecked", "")
            a = self.values_at(rv["a"], db, di, depth + 1)
            b = self.values_at(rv["b"], db, di, depth + 1)
            if a is None or b is None:
                return None
            fn = {"BitOr": lambda x, y: x | y, "BitAnd": lambda x, y: x & y, "Add": lambda x, y: x + y, "Sub": lambda x, y: x - y,
                  "Mul": lambda x, y: x * y, "Shl": lambda x, y: x << y, "BitXor": lambda x, y: x ^ y}.get(op)
            if fn is None:
                return None
            v = {fn(x, y) for x in a for y in b}
        else:
            return None
        if v is None or len(v) > 64:
            return None
        out |= v
    return out


Body.reaching_defs = _reaching_defs
Body.values_at = _values_at


# ---------------------------------------------------------------------------
# backward data slice (all definitions, not only single-definition chains)
# ---------------------------------------------------------------------------
def _data_slice(self, o, limit=400):
    """leaves of the backward data-dependence slice of an operand inside this body:
    set of ('param', name) | ('place', path) | ('call', callee) | ('const', text) | ('yield',) | ('local', n).
    Every definition of every local on the way is followed (assign operands, call arguments and receivers);
    control dependence is NOT part of the slice."""
    out = set()
    seen = set()
    names, _ = self.names
    argc = self.rec.get("argc", 0)
    work = [o]
    while work and len(seen) < limit:
        x = work.pop()
        if x["c"] == "const":
            out.add(("const", self.const_name(x)))
            continue
        if x["c"] not in ("copy", "move"):
            continue
        p = x["p"]
        l = p["l"]
        if p["pr"] and any(e[0] in ("field", "downcast", "deref") for e in p["pr"]):
            out.add(("place", self.place_path(p)))
        rooted_in_param = 1 <= l <= argc or (l == 1 and self.kind != "fn")
        if p["pr"] and rooted_in_param:
            continue  # a field of a parameter / captured variable: a leaf
        key = (l, tuple(e[1] for e in p["pr"] if e[0] == "field")[:1])
        if key in seen:
            continue
        seen.add(key)
        ds = []
        for d in self.defs.get(l, []):
            dp = d[3]["p"] if d[0] == "assign" else (d[3]["dest"] if d[0] == "call" else None)
            if dp is not None and dp["pr"] and p["pr"]:
                f1 = [e[1] for e in dp["pr"] if e[0] == "field"][:1]
                f2 = [e[1] for e in p["pr"] if e[0] == "field"][:1]
                if f1 and f2 and f1 != f2:
                    continue  # another field of the same local
            ds.append(d)
        if not ds:
            if 1 <= l <= argc:
                out.add(("param", names.get(l, "_%d" % l)))
            elif not p["pr"]:
                out.add(("local", l))
            continue
        if 1 <= l <= argc:
            out.add(("param", names.get(l, "_%d" % l)))
        for d in ds:
            if d[0] == "assign":
                rv = d[3]["r"]
                k = rv["k"]
                if k in ("use", "cast", "unop"):
                    work.append(rv["o"])
                elif k == "binop":
                    work.append(rv["a"])
                    work.append(rv["b"])
                elif k in ("ref", "copyderef", "rawptr", "discr", "len"):
                    work.append({"c": "copy", "p": rv["p"]})
                elif k == "agg":
                    work.extend(rv["ops"])
            elif d[0] == "call":
                c = Call(self, d[1], d[3])
                out.add(("call", c.callee))
                work.extend(c.args)
            else:
                out.add(("yield",))
    return out


Body.data_slice = _data_slice


def _reachable_constprop(self, starts, limit=200000):
    """blocks reachable from `starts` when boolean/integer locals that were just assigned a constant on the path
    (`matches!`, `a && b`, `let ok = if .. {true} else {false}`) steer the switches that test them."""
    seen = set()
    out = set()
    stack = [(b, frozenset()) for b in starts]
    n = 0
    while stack and n < limit:
        blk, env = stack.pop()
        if (blk, env) in seen:
            continue
        seen.add((blk, env))
        out.add(blk)
        n += 1
        d = dict(env)
        for st in self.blocks[blk]["st"]:
            if st["k"] != "assign" or st["p"]["pr"]:
                continue
            l = st["p"]["l"]
            rv = st["r"]
            if rv["k"] == "use" and rv["o"]["c"] == "const" and "int" in rv["o"]:
                d[l] = rv["o"]["int"]
            elif rv["k"] == "use" and rv["o"]["c"] in ("copy", "move") and not rv["o"]["p"]["pr"] and rv["o"]["p"]["l"] in d:
                d[l] = d[rv["o"]["p"]["l"]]
            else:
                d.pop(l, None)
        t = self.blocks[blk]["t"]
        if t["k"] == "call" and not t["dest"]["pr"]:
            d.pop(t["dest"]["l"], None)
        env2 = frozenset(d.items())
        if t["k"] == "switch" and t["d"]["c"] in ("copy", "move") and not t["d"]["p"]["pr"] and t["d"]["p"]["l"] in d:
            v = d[t["d"]["p"]["l"]]
            tgt = None
            for val, tb in t["targets"]:
                if val == v:
                    tgt = tb
            if tgt is None:
                tgt = t["otherwise"]
            stack.append((tgt, env2))
            continue
        for tb, lab in self.edges(blk):
            stack.append((tb, env2))
    return out


Body.reachable_constprop = _reachable_constprop
