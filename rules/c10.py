"""C10 — REQ and REP enforce strict alternation for every call history.

Decides the lock-scope shape of the two state machines: no read-only check of the FSM state that is
followed, across an .await, by a write that does not re-validate it (check-then-act); refusals write
nothing; the REP reply target is taken in one atomic scope.  Not: linearizability of arbitrary histories."""
import re

from vlib import mir
from vlib.mir import strip_generics
from vlib.util import where, short, is_plumbing


class Scope:
    def __init__(self, body, lock_call):
        self.body = body
        self.call = lock_call
        self.guard = lock_call.dest["l"]
        self.blocks = set()
        self.writes = []      # (blk, how)
        self.reads = []       # switch blocks on the guarded value
        self.validated_writes = []
        self.drop_blocks = set()


def lock_scopes(body, field_rx):
    """lock scopes on `self.<field>` (parking_lot / std Mutex::lock): blocks between the lock call and the drop of its guard"""
    scopes = []
    for c in body.calls:
        if not c.matches(r"Mutex::lock$") or not re.search(field_rx, c.recv() or ""):
            continue
        sc = Scope(body, c)
        g = sc.guard
        drops = set(b for b in range(body.n) if body.term(b)["k"] == "drop" and body.term(b)["p"]["l"] == g and not body.term(b)["p"]["pr"])
        sc.drop_blocks = drops
        if c.target is None:
            continue
        sc.blocks = body.reachable([c.target], avoid_blocks=drops) | (drops & body.reachable([c.target]))
        # temporaries: `*self.state.lock() = X` drops the guard temp right after the store; same treatment
        gprov = "Mutex::lock(%s)" % c.recv()
        for b in sorted(sc.blocks):
            for st in body.blocks[b]["st"]:
                if st["k"] == "assign" and st["p"]["pr"] and st["p"]["pr"][0][0] == "deref":
                    if from_guard(body, st["p"]["l"], g, mutable_only=True):
                        sc.writes.append((b, "store"))
            t = body.term(b)
            if t["k"] == "call":
                cc = mir.Call(body, b, t)
                if cc.matches(r"std::mem::(replace|take|swap)$") and cc.args and cc.args[0]["c"] in ("copy", "move"):
                    if from_guard(body, cc.args[0]["p"]["l"], g, mutable_only=True):
                        sc.writes.append((b, "mem::" + cc.name))
            if t["k"] == "switch":
                a, _ = body.cond_atom(t["d"])
                if a[0] == "discr" and from_guard(body, a[3]["l"], g):
                    sc.reads.append(b)
        for wb, how in sc.writes:
            if how.startswith("mem::"):
                sc.validated_writes.append(wb)  # atomic take: the old value is returned and inspected
                continue
            if any(body.dominates(rb, wb) and rb != wb for rb in sc.reads):
                sc.validated_writes.append(wb)
        scopes.append(sc)
    return scopes


def from_guard(body, l, g, mutable_only=False, depth=0):
    """does local `l` hold a (re)borrow of the value protected by guard local `g`?"""
    for _ in range(10):
        if l == g:
            return True
        ds = body.whole_defs(l)
        if len(ds) != 1:
            return False
        d = ds[0]
        if d[0] == "call":
            c = mir.Call(body, d[1], d[3])
            if c.name in ("deref_mut",) or (c.name == "deref" and not mutable_only):
                if c.args and c.args[0]["c"] in ("copy", "move"):
                    l = c.args[0]["p"]["l"]
                    continue
            return False
        if d[0] == "assign":
            rv = d[3]["r"]
            if rv["k"] in ("ref", "copyderef", "rawptr"):
                l = rv["p"]["l"]
                continue
            if rv["k"] in ("use", "cast") and rv["o"]["c"] in ("copy", "move"):
                l = rv["o"]["p"]["l"]
                continue
        return False
    return False


def _guard_derefs(body, g):
    """locals holding `&*guard` (results of Deref/DerefMut::deref on the guard)"""
    out = set()
    for c in body.calls:
        if c.name in ("deref", "deref_mut") and c.args and c.args[0]["c"] in ("copy", "move"):
            for d in body.whole_defs(c.args[0]["p"]["l"]):
                if d[0] == "assign" and d[3]["r"]["k"] == "ref" and d[3]["r"]["p"]["l"] == g:
                    out.add(c.dest["l"])
    return out


def turn_held(body, s1, s2):
    """an async (tokio) mutex guard on a field of self is acquired before the check scope s1 and is still
    held at the write scope s2 (serialises the whole check -> await -> write sequence)"""
    for i, ty in enumerate(body.locals):
        if not re.match(r"^tokio::sync::MutexGuard<", ty):
            continue
        defs = body.def_blocks(i)
        if not defs:
            continue
        # provenance: lock() on a field of self
        acquired = [b for b in defs if body.dominates(b, s1.call.blk)]
        if not acquired:
            continue
        pv = body.provenance({"c": "copy", "p": {"l": i, "pr": [], "s": "", "ty": ""}})
        if "tokio::sync::Mutex::lock(self." not in pv:
            continue
        drops = [b for b in range(body.n) if body.term(b)["k"] == "drop" and body.term(b)["p"]["l"] == i and not body.term(b)["p"]["pr"] and not body.blocks[b]["cleanup"]]
        # an explicit `drop(guard)` (or any other move of the guard out of its local) releases the turn as well
        for c in body.calls:
            if any(a["c"] == "move" and a["p"]["l"] == i and not a["p"]["pr"] for a in c.args) and not body.blocks[c.blk]["cleanup"]:
                drops.append(c.blk)
        for b2, _, st in body.statements():
            if st["k"] == "assign" and st["r"]["k"] == "use" and st["r"]["o"]["c"] == "move" and st["r"]["o"]["p"]["l"] == i and not st["r"]["o"]["p"]["pr"] and not body.blocks[b2]["cleanup"]:
                drops.append(b2)
        # after the guard is dropped the write must not be reachable any more, and no drop lies between check and write
        after = body.reachable(drops) if drops else set()
        between = body.reachable([s1.call.blk]) & body.bwd_reachable([s2.call.blk])
        if s2.call.blk not in after and not (set(drops) & between):
            return True
    return False


def fsm_bodies(prog):
    for body in prog.bodies.values():
        if not body.kind.startswith("coroutine") or "::tests" in body.path:
            continue
        if body.impl_self in ("socket::req_socket::ReqSocket", "socket::rep_socket::RepSocket"):
            yield body


def r1_no_check_then_act(chk):
    r = chk.rule("R1", "no optimistic check -> await -> blind write on the REQ/REP state", "T7 lock-scope analysis",
                 "a lock scope that only reads the FSM state, followed across an .await by a lock scope that writes the state without re-reading it, lets two racing calls both pass the check")
    for cfg, prog in chk.configs():
        n_scopes = 0
        for body in fsm_bodies(prog):
            scopes = lock_scopes(body, r"^self\.state$")
            n_scopes += len(scopes)
            yields = body.yields()
            checks = [s for s in scopes if s.reads and not s.writes]
            for s2 in scopes:
                blind = [w for w, how in s2.writes if w not in s2.validated_writes]
                if not blind:
                    if s2.writes:
                        r.ok(cfg, "%s|state write bb-scope#%d" % (short(body.path), scopes.index(s2)), where(body, s2.call.blk), "write re-validates the state inside its own lock scope (or takes it atomically)")
                    continue
                key = "%s|blind state write after await" % short(body.path)
                hit = None
                for s1 in checks:
                    if s1 is s2:
                        continue
                    after_s1 = body.reachable(list(s1.drop_blocks) or [s1.call.blk])
                    for y in yields:
                        if y in after_s1 and s2.call.blk in body.reachable([y]):
                            hit = (s1, y)
                            break
                    if hit:
                        break
                if hit and turn_held(body, hit[0], s2):
                    r.ok(cfg, "%s|state write under a turn mutex" % short(body.path), where(body, s2.call.blk), "check, await and write all happen while an async per-socket mutex guard is held")
                    continue
                if hit:
                    r.bad(cfg, key, where(body, blind[0]),
                          "the state is checked under the lock at %s, the lock is released, the task awaits (bb%d), and the state is then overwritten at %s without re-checking: two racing calls both pass the check (REQ: two sends succeed; REP: the second recv overwrites the first requester)" % (s1.call.sp.split("/")[-1] if (s1 := hit[0]) else "?", hit[1], body.term(blind[0])["sp"].split("/")[-1]))
                else:
                    r.ok(cfg, "%s|state write bb-scope#%d" % (short(body.path), scopes.index(s2)), where(body, s2.call.blk), "no read-only check scope and await precede this write")
        if n_scopes < 10:
            r.bad(cfg, "floor|lock scopes", "-", "only %d lock scopes on the REQ/REP state found (14 on the pinned tree)" % n_scopes)


def r2_refusal_changes_nothing(chk):
    r = chk.rule("R2", "a refused call changes nothing", "T3",
                 "on every path that returns InvalidState from a REQ/REP operation no lock scope wrote a different state before")
    for cfg, prog in chk.configs():
        n = 0
        for body in fsm_bodies(prog):
            if body.name not in ("send", "recv", "send_multipart", "recv_multipart"):
                continue
            scopes = lock_scopes(body, r"^self\.state$")
            # blocks constructing ZmqError::InvalidState that flow to return
            for b, i, st in body.aggregates():
                if st["r"].get("variant") != "InvalidState":
                    continue
                n += 1
                key = "%s|InvalidState exit" % short(body.path)
                before = body.bwd_reachable([b])
                wrote = [s for s in scopes if any(w in before and how == "store" for w, how in s.writes)]
                # REP's write-back of the value it just took (mem::replace then store) is accepted
                wrote = [s for s in wrote if not any(how.startswith("mem::") for _, how in s.writes)]
                if wrote:
                    r.bad(cfg, key, where(body, b), "an InvalidState refusal is reachable after the state was already overwritten at %s" % wrote[0].call.sp.split("/")[-1])
                else:
                    r.ok(cfg, key, where(body, b))
        r.require(cfg, 4, "InvalidState exits")


def r3_atomic_take(chk):
    r = chk.rule("R3", "REP takes the pending request atomically", "T7 negative",
                 "RepSocket::send_multipart reads and resets the state with mem::replace inside one lock scope that contains no .await")
    for cfg, prog in chk.configs():
        for body in fsm_bodies(prog):
            if body.impl_self != "socket::rep_socket::RepSocket" or body.name != "send_multipart":
                continue
            scopes = lock_scopes(body, r"^self\.state$")
            takes = [s for s in scopes if any(how == "mem::replace" for _, how in s.writes)]
            key = "%s|atomic take of the pending request" % short(body.path)
            if not takes:
                r.bad(cfg, key, where(body, 0), "the reply path does not take the pending request with mem::replace under the state lock")
                continue
            s = takes[0]
            ys = [y for y in body.yields() if y in s.blocks]
            if ys:
                r.bad(cfg, key, where(body, ys[0]), "an .await sits inside the lock scope that takes the pending request")
            else:
                r.ok(cfg, key, where(body, s.call.blk))
        r.require(cfg, 1, "REP reply path")


def r4_detach_resets_only_for_its_peer(chk):
    r = chk.rule("R4", "a peer's detach resets the REQ/REP state only if that very connection is the one awaited", "T3 guarded-by + T11 derives-from",
                 "in the pipe_detached handlers of REQ and REP every write of the protocol state is guarded by an equality between the connection key stored in the state "
                 "(target_endpoint_uri / source_pipe_read_id) and the key of the detaching pipe, compared as stored: no crate function is applied to either side "
                 "(a normalised key, e.g. an inproc URI without its #<id>, is shared by several connections, so an unrelated peer's detach would let a second send() through)")
    for cfg, prog in chk.configs():
        n = 0
        for body in prog.bodies.values():
            if body.impl_trait != "socket::ISocket" or body.name != "pipe_detached" or not body.kind.startswith("coroutine"):
                continue
            if body.impl_self not in ("socket::req_socket::ReqSocket", "socket::rep_socket::RepSocket"):
                continue
            for blk, i, st in body.statements():
                if st["k"] != "assign" or not st["p"]["pr"]:
                    continue
                pp = body.place_path(st["p"])
                if not re.search(r"Mutex::lock\(self\.state\)|^op_state_guard|^guard$", body.provenance({"c": "copy", "p": {"l": st["p"]["l"], "pr": [], "s": "", "ty": ""}})) and "self.state" not in pp:
                    continue
                if st["p"]["pr"][-1][0] != "deref" or body.blocks[blk]["cleanup"]:
                    continue
                n += 1
                key = "%s|state reset keyed by the detaching connection" % short(body.root)
                eqs = []
                for g in body.guards(blk, select_aware=False):
                    a = g.atom
                    if a[0] == "call" and a[1].name in ("eq", "ne") and len(a[1].args) == 2 and g.truth is not None and ((a[1].name == "eq") == g.truth):
                        eqs.append((g, a[1].args[0], a[1].args[1]))
                    elif a[0] == "cmp" and a[1] in ("Eq", "Ne") and g.truth is not None and ((a[1] == "Eq") == g.truth):
                        eqs.append((g, a[2], a[3]))
                good = None
                why = "no equality between a key stored in the state and the detaching pipe's key guards the write"
                for g, x, y in eqs:
                    sx, sy = body.data_slice(x), body.data_slice(y)
                    both = sx | sy
                    stored = any(p_[0] == "place" and re.search(r"target_endpoint_uri|source_pipe_read_id|peer_info|ExpectingReply|ReceivedRequest", p_[1]) for p_ in both)
                    mine = any(p_[0] == "place" and re.search(r"pipe_read_id", p_[1]) for p_ in both) or any(p_[0] == "call" and p_[1].endswith("HashMap::remove") for p_ in both)
                    if not (stored and mine):
                        continue
                    transformed = sorted(p_[1] for p_ in both if p_[0] == "call" and prog.body(p_[1]) is not None)
                    if transformed:
                        why = "the keys are compared after passing through %s: connections that differ only in what that function drops are taken for the awaited one" % ", ".join(short(t) for t in transformed)
                        continue
                    good = g
                    break
                if good is not None:
                    r.ok(cfg, key, where(body, blk), "guarded by an equality of untransformed keys (bb%d)" % good.s)
                else:
                    r.bad(cfg, key, where(body, blk), "%s: the detach of an unrelated peer resets the lock-step state, so send();send() (REQ) or recv();recv() (REP) both succeed and a late reply is taken for the answer to the next request" % why)
        r.require(cfg, 2, "state writes in REQ/REP pipe_detached")


def run(chk):
    chk.undecided = ["linearizability of arbitrary concurrent histories"]
    r1_no_check_then_act(chk)
    r2_refusal_changes_nothing(chk)
    r3_atomic_take(chk)
    r4_detach_resets_only_for_its_peer(chk)
