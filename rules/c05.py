"""C05 — handshakes converge, agree, and give one verdict on compatibility.

Decides: the staged greeting's stage table (no stage waits for more bytes than the peer can
have sent), READY roles, that every PeerError is fatal on both back-ends, and that the three
socket-type compatibility relations agree.  Not: convergence under every delivery schedule."""
import re

from rules import c07 as C7
from rules.c04 import variant_index
from vlib import mir
from vlib.mir import strip_generics
from vlib.util import where, short, is_plumbing

ACC = "self.network_read_accumulator"


def need_bytes(body, blk):
    """largest constant n such that len(accumulator) >= n is established on every path to blk"""
    best = 0
    for x, delta, g in C7.length_facts(body, blk, ACC):
        c = C7.const_of(C7.simplify(x))
        if c is not None:
            best = max(best, c + delta)
    return best


def r2_staged_greeting(chk):
    r = chk.rule("R2", "the staged greeting cannot wait on itself", "T3 guarded-by + T9 stage table",
                 "each greeting stage is emitted after at most as many peer bytes as the peer's previous stage has put on the wire: A(signature,10) needs 0; B(revision,1) needs 10; C(v3 tail,53) needs 11; decode needs 64")
    for cfg, prog in chk.configs():
        consts = {k.rsplit("::", 1)[-1]: v.get("int") for k, v in prog.facts.consts.items() if "protocol::zmtp" in k}
        sig, glen = consts.get("SIGNATURE_LENGTH"), consts.get("GREETING_LENGTH")
        if sig != 10 or glen != 64:
            r.bad(cfg, "const|SIGNATURE_LENGTH/GREETING_LENGTH", "core/src/protocol/zmtp/greeting.rs", "SIGNATURE_LENGTH=%s GREETING_LENGTH=%s (ZMTP: 10 / 64)" % (sig, glen))
            continue
        start = prog.body("protocol::zmtp::engine::ZmtpEngine::start")
        pg = prog.body("protocol::zmtp::engine::ZmtpEngine::process_greeting")
        if start is None or pg is None:
            r.bad(cfg, "anchor|start/process_greeting", "-", "engine entry points not found")
            continue
        # stage A
        sends = [(b, st) for b, i, st in start.aggregates() if st["r"].get("variant") == "Send" and st["r"].get("adt", "").endswith("NetAction")]
        if len(sends) == 1 and any(c.matches(r"greeting::encode_signature$") for c in start.calls):
            r.ok(cfg, "stage A|signature sent unconditionally by start()", where(start, sends[0][0]))
        else:
            r.bad(cfg, "stage A|signature sent unconditionally by start()", where(start, 0), "start() must emit exactly the 10-byte signature")
        # stages B, C in process_greeting
        stage = {}
        for b, i, st in pg.aggregates():
            if st["r"].get("variant") != "Send" or not st["r"].get("adt", "").endswith("NetAction"):
                continue
            data = pg.provenance(st["r"]["ops"][0])
            if "from_static" in data:
                stage["B"] = (b, need_bytes(pg, b))
            elif "freeze" in data:
                stage["C"] = (b, need_bytes(pg, b))
        emitted = {"A": sig, "B": 1, "C": glen - sig - 1}
        for nm, prev_total in (("B", emitted["A"]), ("C", emitted["A"] + emitted["B"])):
            key = "stage %s|needs <= %d peer bytes" % (nm, prev_total)
            if nm not in stage:
                r.bad(cfg, key, where(pg, 0), "stage %s emission not found in process_greeting" % nm)
                continue
            b, need = stage[nm]
            if need <= prev_total:
                r.ok(cfg, key, where(pg, b), "waits for %d bytes" % need)
            else:
                r.bad(cfg, key, where(pg, b), "stage %s is emitted only after %d peer bytes, but the peer (running the same staged greeting) has sent only %d before it sees ours: two rzmq peers wait for each other forever" % (nm, need, prev_total))
        # decode after full greeting
        dec = [c for c in pg.calls if c.matches(r"ZmtpGreeting::decode$")]
        for c in dec:
            need = need_bytes(pg, c.blk)
            key = "decode|needs <= %d peer bytes" % glen
            if need <= glen:
                r.ok(cfg, key, where(pg, c.blk), "waits for %d bytes" % need)
            else:
                r.bad(cfg, key, where(pg, c.blk), "greeting decode waits for %d bytes, a greeting has %d" % (need, glen))
        r.require(cfg, 4, "greeting stages")


def r3_ready_roles(chk):
    r = chk.rule("R3", "READY roles", "T3 guarded-by",
                 "the client emits READY on entering the Ready phase, the server only after the client's READY")
    for cfg, prog in chk.configs():
        for c in prog.calls_to(r"ZmtpEngine::emit_local_ready$"):
            body = c.body
            if "::tests" in body.path:
                continue
            gs = body.guards(c.blk, select_aware=False)
            srv = [g.truth for g in gs if g.atom[0] == "place" and g.atom[1].endswith(".is_server")]
            key = "%s|emit_local_ready role" % short(body.path)
            if body.name == "process_ready":
                ok = srv == [True]
                want = "server (after parsing the client's READY)"
            else:
                ok = srv == [False]
                want = "client (on entering Ready)"
            if ok:
                r.ok(cfg, key, where(body, c.blk), want)
            else:
                r.bad(cfg, key, where(body, c.blk), "READY emitted under is_server==%s, expected %s: both sides would wait for (or both send) the first READY" % (srv, want))
        r.require(cfg, 3, "emit_local_ready call sites")


def r4_peer_error_fatal(chk):
    r = chk.rule("R4", "every PeerError closes the connection on both back-ends", "T2 sibling agreement",
                 "each by-value consumer of AppAction handles PeerError by making the connection fatal (set_fatal_error / initiate_close_due_to_error)")
    floors = {"default": 3, "noplain": 3, "full": 3, "full-linux": 4}
    for cfg, prog in chk.configs():
        adt, vidx = variant_index(prog, "protocol::zmtp::actions::AppAction", "PeerError")
        for body in prog.bodies.values():
            if "::tests" in body.path:
                continue
            live = body.live_blocks()
            for s in range(body.n):
                t = body.term(s)
                if t["k"] != "switch" or s not in live:
                    continue
                a, _ = body.cond_atom(t["d"])
                if a[0] != "discr" or a[2] != adt or a[3]["pr"]:
                    continue
                tgt = [tb for v, tb in t["targets"] if v == vidx]
                key = "%s|match AppAction arm PeerError" % short(body.path)
                if not tgt:
                    r.bad(cfg, key, where(body, s), "PeerError falls into a wildcard arm: a protocol error reported by the engine is ignored and the connection lives on")
                    continue
                fatal = set(c.blk for c in body.calls if c.matches(r"set_fatal_error$|transition_to_shutdown_stream$"))
                for b, i, st in body.statements():
                    if st["k"] == "assign" and st["p"]["pr"] and st["p"]["pr"][-1][0] == "field" and st["p"]["pr"][-1][2] in ("initiate_close_due_to_error",) and st["r"]["k"] == "use" and st["r"]["o"].get("int") == 1:
                        fatal.add(b)
                join = body.ipdom.get(s)
                reach = body.reachable(tgt, avoid_blocks=fatal)
                if (join in reach) or any(body.term(b)["k"] == "return" for b in reach):
                    r.bad(cfg, key, where(body, s), "the PeerError arm can finish without making the connection fatal")
                else:
                    r.ok(cfg, key, where(body, s))
        r.require(cfg, floors.get(cfg, 3), "by-value matches over AppAction")


def run(chk):
    chk.undecided = ["convergence for all delivery schedules (model-checking question)", "agreement of the negotiated values at both ends"]
    r2_staged_greeting(chk)
    r3_ready_roles(chk)
    r4_peer_error_fatal(chk)
