"""C16 — close() and term() always finish and leave nothing running or hanging.

Decides: actor accounting is RAII, every spawned task is accounted for (guard or reviewed table),
closed sockets test is_running() before they can block, Stop releases every blocker a socket owns,
the command loop unregisters itself on every exit, WaitGroup::wait has no lost-wake-up window and
done() cannot underflow on the shutdown path.  Not: bounded time."""
import re

from rules import common
from vlib import mir
from vlib.mir import strip_generics
from vlib.util import where, short, is_plumbing, norm_cmp, interval

SPAWN_RX = r"^tokio::(task::)?spawn$|^tokio::task::spawn_blocking$|thread::Builder::spawn$|^std::thread::spawn$|Handle::spawn$|JoinSet.*::spawn$"

# spawn targets that do not hold an ActorDropGuard, reviewed one by one
UNGUARDED_OK = {
    "dealer_socket::DealerSocketOutgoingProcessor::run": "stopped by processor_stop_signal in the Stop arm and aborted in DealerSocket::drop",
    "inproc_reader::spawn::{closure#0}": "ends when the inproc frame channel closes (peer/socket gone); owns no socket state",
    "command_processor::handle_user_connect::{closure#0}::{closure#0}": "one-shot inproc connect helper: runs connect_inproc, replies on the caller's oneshot and ends",
    "command_processor::handle_new_connection_established::{closure#0}::{closure#1}": "one-shot: closes the connection of an overwritten EndpointInfo and ends",
    "command_processor::handle_new_connection_established::{closure#0}::{closure#2}": "one-shot: closes the connection of an overwritten EndpointInfo and ends",
    "ipc::IpcListener::run_accept_loop::{closure#0}::{closure#0}": "per-connection hand-off; ends after creating the session (which holds its own guard)",
    "tcp::TcpListener::run_accept_loop::{closure#0}::{closure#0}": "per-connection hand-off; ends after creating the session (which holds its own guard)",
    "tcp::TcpConnecter::try_connect_once::{closure#0}::{closure#1}::{closure#0}": "spawn_blocking DNS/connect helper awaited by its caller",
    "uring::shutdown_uring_backend::{closure#0}::{closure#0}": "spawn_blocking join of the io_uring worker thread",
    "worker::UringWorker::spawn_with_config::{closure#1}": "io_uring worker OS thread; joined by shutdown_uring_backend",
}


def r1_raii(chk):
    r = chk.rule("R1", "actor accounting is RAII", "T1 who-may-call",
                 "publish_actor_started is called only by ActorDropGuard::new and publish_actor_stopping only by its Drop; the guard is never mem::forget-ed")
    for cfg, prog in chk.configs():
        for c in prog.calls_to(r"Context::publish_actor_started$"):
            ok = c.body.impl_self == "runtime::actor_drop_guard::ActorDropGuard" and c.body.name == "new"
            (r.ok if ok else r.bad)(cfg, "%s|publish_actor_started" % short(c.body.path), where(c.body, c.blk), *([] if ok else ["ActorStarted published outside ActorDropGuard::new: the context's wait group is incremented without a guaranteed decrement"]))
        for c in prog.calls_to(r"Context::publish_actor_stopping$"):
            ok = c.body.impl_self == "runtime::actor_drop_guard::ActorDropGuard" and c.body.impl_trait == "std::ops::Drop"
            (r.ok if ok else r.bad)(cfg, "%s|publish_actor_stopping" % short(c.body.path), where(c.body, c.blk), *([] if ok else ["ActorStopping published outside ActorDropGuard::drop"]))
        for c in prog.calls_to(r"^std::mem::(forget|ManuallyDrop)"):
            if "ActorDropGuard" in (c.args[0]["p"]["ty"] if c.args and c.args[0]["c"] in ("copy", "move") else ""):
                r.bad(cfg, "%s|forget(ActorDropGuard)" % short(c.body.path), where(c.body, c.blk), "an ActorDropGuard is leaked: ActorStopping is never published and term() waits for the 10 s timeout")
        r.require(cfg, 2, "publish sites")


def r2_spawn_census(chk):
    r = chk.rule("R2", "every spawned task is accounted for", "T1 census",
                 "each tokio::spawn / spawn_blocking / thread spawn target constructs an ActorDropGuard before its first .await, or is in the reviewed table of helper tasks")
    for cfg, prog in chk.configs():
        for c in prog.all_calls():
            if not re.search(SPAWN_RX, c.callee) or "tests" in c.body.path or not c.args:
                continue
            body = c.body
            org = body.value_origin(c.args[-1])
            tgt = None
            if org[0] == "agg":
                tgt = org[1]["r"].get("def")
            elif org[0] == "call":
                tgt = org[1].callee
            key = "%s|spawns %s" % (short(body.path), short(tgt) if tgt else "?")
            if tgt is None:
                r.bad(cfg, key, where(body, c.blk), "spawn target cannot be resolved")
                continue
            tb = prog.body(strip_generics(tgt))
            # async fn: the coroutine is {closure#0} of the called fn
            cb = prog.body(strip_generics(tgt) + "::{closure#0}") if tb is not None and not tb.kind.startswith("coroutine") and tb.kind != "closure" else tb
            guarded = False
            if cb is not None:
                news = [x for x in cb.calls if x.matches(r"ActorDropGuard::new$")]
                ys = [y for y in cb.yields() if y in cb.live_blocks()]
                if news and all(cb.dominates(news[0].blk, y) or not (y in cb.reachable([0], avoid_blocks=[news[0].blk])) for y in ys):
                    guarded = True
            if guarded:
                r.ok(cfg, key, where(body, c.blk), "ActorDropGuard constructed before the first .await")
            elif any(strip_generics(tgt).endswith(k) for k in UNGUARDED_OK):
                why = [v for k, v in UNGUARDED_OK.items() if strip_generics(tgt).endswith(k)][0]
                r.ok(cfg, key + " (listed)", where(body, c.blk), why)
            else:
                r.bad(cfg, key, where(body, c.blk), "a task is spawned that neither holds an ActorDropGuard nor is in the reviewed helper table: Context::term() cannot know when it has stopped")
        r.require(cfg, 15, "spawn sites")


def r3_refuse_when_closed(chk):
    r = chk.rule("R3", "user operations test is_running() before they can block", "T2 sibling agreement + T3",
                 "each of the eight sockets' send/recv/send_multipart/recv_multipart either cannot suspend at all or calls is_running() before its first .await")
    for cfg, prog in chk.configs():
        for body in prog.bodies.values():
            if body.impl_trait != "socket::ISocket" or body.name not in ("send", "recv", "send_multipart", "recv_multipart") or not body.kind.startswith("coroutine") or body.path.count("{closure") != 1:
                continue
            live = body.live_blocks()
            ys = [y for y in body.yields() if y in live]
            key = "%s|is_running before first await" % short(body.path)
            if not ys:
                r.ok(cfg, key, where(body, 0), "cannot suspend")
                continue
            chk_calls = [c for c in body.calls if c.matches(r"SocketCore::is_running$")]
            if chk_calls and all(any(body.dominates(c.blk, y) for c in chk_calls) for y in ys):
                r.ok(cfg, key, where(body, chk_calls[0].blk))
            else:
                # delegation to a sibling op that performs the test (send -> send_multipart)
                deleg = [c for c in body.calls if c.trait == "socket::ISocket" and c.name in ("send_multipart", "recv_multipart", "send", "recv")]
                if deleg and all(any(body.dominates(c.blk, y) for c in deleg) for y in ys):
                    r.ok(cfg, key, where(body, deleg[0].blk), "delegates to %s, which performs the test" % deleg[0].name)
                else:
                    r.bad(cfg, key, where(body, ys[0]), "the operation can suspend without having tested is_running(): on a closed socket it may hang instead of returning an error")
        r.require(cfg, 32, "8 sockets x 4 operations")


BLOCKER_TYPES = [
    (r"patterns::(anonymous_ingress::AnonymousIngressEngine|addressed_ingress::AddressedIngressEngine)", r"IngressEngine::close$", "close"),
    (r"patterns::(load_balancer::LoadBalancer|outgoing_orchestrator::OutgoingMessageOrchestrator)", r"(LoadBalancer|OutgoingMessageOrchestrator)::deactivate$", "deactivate"),
]


def r4_stop_releases_blockers(chk):
    r = chk.rule("R4", "Stop releases every blocker the socket owns", "T2 sibling agreement (field-type driven)",
                 "for each ISocket struct, every ingress-engine field is close()d and every load-balancer/orchestrator field is deactivate()d by the Command::Stop handler")
    for cfg, prog in chk.configs():
        sockets = {}
        for imp in prog.facts.impls:
            if imp.get("trait") == "socket::ISocket" and imp.get("self_adt"):
                sockets[imp["self_adt"]] = imp
        for adt_path in sorted(sockets):
            adt = prog.facts.adts.get(adt_path)
            if not adt:
                continue
            pc = prog.body("<%s as socket::ISocket>::process_command::{closure#0}" % adt_path)
            for f in adt["variants"][0]["fields"]:
                for ty_rx, call_rx, verb in BLOCKER_TYPES:
                    if not re.search(ty_rx, f["ty"]):
                        continue
                    key = "%s.%s|%s() on Stop" % (short(adt_path), f["name"], verb)
                    if pc is None:
                        r.bad(cfg, key, adt_path, "no process_command body found")
                        continue
                    hits = [c for c in pc.calls if c.matches(call_rx) and (c.recv() or "").startswith("self." + f["name"])]
                    if hits:
                        r.ok(cfg, key, where(pc, hits[0].blk))
                    else:
                        r.bad(cfg, key, where(pc, 0), "the socket owns `%s: %s` but its Stop handler never calls %s() on it: an operation parked on it (send waiting for a peer / recv waiting for data) never returns after close()" % (f["name"], f["ty"].rsplit("::", 1)[-1], verb))
        r.require(cfg, 8, "blocker fields of the eight sockets")


def r5_unregister(chk):
    r = chk.rule("R5", "the command loop unregisters the socket on every exit", "T4 must-pass-through",
                 "every path from the command loop to its return passes unregister_socket (and unregister_inproc for bound names)")
    for cfg, prog in chk.configs():
        body = prog.body("socket::core::command_loop::run_command_loop::{closure#0}")
        if body is None:
            r.bad(cfg, "anchor|run_command_loop", "-", "not found")
            continue
        un = [c.blk for c in body.calls if c.matches(r"ContextInner::unregister_socket$")]
        key = "run_command_loop|unregister_socket on every exit"
        reach = body.reachable([0], avoid_blocks=un)
        rets = [b for b in reach if body.term(b)["k"] == "return"]
        # early returns before the actor is set up (guard not yet created) do not count: require dominance by guard creation
        news = [c.blk for c in body.calls if c.matches(r"ActorDropGuard::new$")]
        rets = [b for b in rets if news and body.dominates(news[0], b)]
        if un and not rets:
            r.ok(cfg, key, where(body, un[0]))
        else:
            r.bad(cfg, key, where(body, rets[0] if rets else 0), "the socket task can finish without unregistering from the context: its handle (and listening state) stays registered")
        ui = [c.blk for c in body.calls if c.matches(r"ContextInner::unregister_inproc$")]
        key = "run_command_loop|unregister_inproc for bound names"
        if ui and body.loops_containing(ui[0]):
            prov = ""
            r.ok(cfg, key, where(body, ui[0]))
        else:
            r.bad(cfg, key, where(body, 0), "bound inproc names are not unregistered at exit: the name cannot be bound again")
        r.require(cfg, 2, "unregister obligations")


def r6_waitgroup(chk):
    r = chk.rule("R6", "WaitGroup::wait cannot miss the final done()", "T6 check-then-wait", "see C08 R3")
    common.rule_check_then_wait(chk, r, only_fields=["notify_on_zero"])
    for cfg, _ in chk.configs():
        r.require(cfg, 1, "waiters on notify_on_zero")


def r7_done_guarded(chk):
    r = chk.rule("R7", "no panic on the shutdown path", "T3 guarded-by",
                 "every WaitGroup::done() outside the wait group itself is dominated by get_count() > 0 (done() panics at zero)")
    for cfg, prog in chk.configs():
        for c in prog.calls_to(r"WaitGroup::done$"):
            body = c.body
            if "tests" in body.path or body.impl_self == "runtime::waitgroup::WaitGroup":
                continue
            key = "%s|done() guarded" % short(body.path)
            ok = False
            for g in body.guards(c.blk):
                nc = norm_cmp(body, g)
                if nc and isinstance(nc[2], int) and "get_count" in body.provenance(g.atom[2]) + body.provenance(g.atom[3]):
                    lo, hi = interval(nc[1], nc[2])
                    if lo >= 1:
                        ok = True
            (r.ok if ok else r.bad)(cfg, key, where(body, c.blk), *([] if ok else ["WaitGroup::done() (panics when the count is already zero) is not guarded by get_count() > 0: a duplicate ActorStopping panics the shutdown path"]))
        r.require(cfg, 1, "done() call sites")


def r8_monitor_never_blocks(chk):
    r = chk.rule("R8", "no library task waits on the application's monitor queue", "T1 who-may-call (blocking form)",
                 "events for the socket monitor (a bounded queue the application may leave unread) are emitted with the non-blocking try_send everywhere; an awaited send() would park a library task "
                 "(connect, shutdown clean-up) for as long as the application does not read its monitor, past close() and term()")
    for cfg, prog in chk.configs():
        n = 0
        for c in prog.all_calls():
            if "::tests" in c.body.path or not c.args or c.name not in ("send", "try_send", "send_timeout", "send_blocking", "blocking_send"):
                continue
            a0 = c.args[0]
            ty = c.body.locals[a0["p"]["l"]] if a0["c"] in ("copy", "move") and not a0["p"]["pr"] else (a0.get("p", {}).get("ty") or "")
            if "Sender<socket::events::SocketEvent>" not in ty and "Sender<socket::events::SocketEvent>" not in c.callee:
                continue
            n += 1
            idx = [x for x in c.body.calls if x.name == c.name and x.args and x.blk <= c.blk and "SocketEvent" in (c.body.locals[x.args[0]["p"]["l"]] if x.args[0]["c"] in ("copy", "move") and not x.args[0]["p"]["pr"] else "")]
            key = "%s|monitor event #%d is sent without waiting" % (short(c.body.path), len(idx))
            if c.name == "try_send":
                r.ok(cfg, key, where(c.body, c.blk), "try_send")
            else:
                r.bad(cfg, key, where(c.body, c.blk), "%s() on the monitor queue waits for room: with a full, unread monitor this task never finishes (and whatever it does afterwards - replying to the caller, finishing the shutdown - never happens)" % c.name)
        r.require(cfg, 20, "monitor event emissions")


def run(chk):
    chk.undecided = ["bounded time of close()/term()", "ports free after close", "term()'s internal 10 s timeout hides stragglers (observation)"]
    r1_raii(chk)
    r2_spawn_census(chk)
    r3_refuse_when_closed(chk)
    r4_stop_releases_blockers(chk)
    r5_unregister(chk)
    r6_waitgroup(chk)
    r7_done_guarded(chk)
    r8_monitor_never_blocks(chk)
