"""C07 — no byte stream from a peer can crash rzmq or make it buffer without bound."""
import json
import os
import re

from vlib import mir
from vlib.mir import strip_generics
from vlib.util import where, short, is_plumbing, norm_cmp, interval, INF, guard_interval

HERE = os.path.dirname(os.path.abspath(__file__))

# ----------------------------------------------------------------------------
# R1: panic-freedom of the peer-facing parsers (T8)
# ----------------------------------------------------------------------------
PARSER_FILES = re.compile(
    r"core/src/(protocol/zmtp/(manual_parser|command|greeting|codec|engine)\.rs|security/|message/mod\.rs|socket/core/inproc_reader\.rs|io_uring_backend/(zmtp_handler|worker/multishot_reader)\.rs)")

PANIC_CALL = re.compile(
    r"(Option|Result)::(unwrap|expect|unwrap_err|expect_err)$|^core::panicking|^std::rt::begin_panic|slice::index::index(_mut)?$|Index<.*>>::index$|IndexMut<.*>>::index_mut$|::copy_from_slice$|BytesMut::split_to$|BytesMut::split_off$|Bytes::split_to$|Bytes::split_off$|Bytes::slice$|Buf>::advance$|Buf::advance$|Buf::get_|Buf::copy_to_bytes$|Buf::copy_to_slice$|VecU8::(push|insert|remove|with_capacity|extend)$|FrameBatch::(push|insert|remove)$|FrameBatch as std::iter::Extend<.*>>::extend$|FrameBatch as std::convert::From<.*>>::from$|Instant as std::ops::Add|Duration as std::ops::Mul|Vec::(remove|swap_remove|insert|drain|split_off)$|RefCell::borrow(_mut)?$|::split_at(_mut)?$")


def ingress_roots(prog):
    roots = []
    for b in prog.bodies.values():
        sp = strip_generics(b.path)
        if "::tests" in sp or "_tests::" in sp or b.kind == "closure":
            continue
        if b.impl_self == "protocol::zmtp::engine::ZmtpEngine" and b.name in ("on_network_bytes", "on_tick", "start", "close"):
            roots.append(sp)
        elif b.impl_trait in ("security::mechanism::Mechanism", "security::framer::ISecureFramer", "security::cipher::IDataCipher") and b.name in (
                "process_token", "produce_token", "into_framer", "try_read_msg", "try_read_msg_batch", "decrypt"):
            roots.append(sp)
        elif sp.endswith("ZmtpCommand::parse") or sp.endswith("ZmtpGreeting::decode") or sp.endswith("ZmtpGreeting::peek_revision"):
            roots.append(sp)
        elif b.impl_self == "protocol::zmtp::manual_parser::ZmtpManualParser" and b.name in ("decode_from_buffer", "decode_frame_from_slice", "decode_frame_from_bytes", "peek_frame_len"):
            roots.append(sp)
        elif b.impl_trait and b.impl_trait.endswith("codec::Decoder") and b.name == "decode":
            roots.append(sp)
        elif "socket::core::inproc_reader::spawn" in sp:
            roots.append(sp)
        elif b.impl_self and "ZmtpUringHandler" in b.impl_self and b.name in ("process_ring_read_bytes", "apply_engine_output"):
            roots.append(sp)
        elif "MultishotReader" in sp and b.name == "process_cqe":
            roots.append(sp)
    return sorted(set(roots))


def base_of_assert(body, t):
    """(kind, value): provenance of the buffer a BoundsCheck assert protects, and the index operand"""
    m = re.search(r"len: (?:move|copy) _(\d+)", t["msg"])
    if not m:
        m2 = re.search(r"len: const (\d+)", t["msg"])
        return ("const", int(m2.group(1))) if m2 else (None, None)
    l = int(m.group(1))
    ds = body.whole_defs(l)
    if len(ds) == 1 and ds[0][0] == "assign":
        rv = ds[0][3]["r"]
        if rv["k"] == "unop" and rv["op"] == "PtrMetadata":
            return ("path", body.provenance_u(rv["o"]))
        if rv["k"] == "use" and rv["o"]["c"] == "const":
            return ("const", rv["o"].get("int"))
    return ("path", body.local_path(l))


def index_of_assert(body, t):
    m = re.search(r"index: (?:move|copy) _(\d+)", t["msg"])
    if m:
        return body.provenance_u({"c": "copy", "p": {"l": int(m.group(1)), "pr": [], "s": "", "ty": ""}})
    m = re.search(r"index: const (\d+)", t["msg"])
    if m:
        return "const:%s" % m.group(1)
    return None



def base_def_call(body, o, depth=0):
    """follow refs / moves / identity calls from an operand to the call that created the underlying local"""
    for _ in range(10):
        if o["c"] not in ("copy", "move"):
            return None
        l = o["p"]["l"]
        ds = body.whole_defs(l)
        if len(ds) != 1:
            return None
        d = ds[0]
        if d[0] == "call":
            c = mir.Call(body, d[1], d[3])
            if c.declared in mir.IDENTITY_CALLS and c.args and c.name in ("deref", "deref_mut", "as_ref", "as_mut", "borrow", "borrow_mut"):
                o = c.args[0]
                continue
            return c
        if d[0] == "assign":
            rv = d[3]["r"]
            if rv["k"] in ("use", "cast"):
                o = rv["o"]
                continue
            if rv["k"] in ("ref", "copyderef", "rawptr"):
                o = {"c": "copy", "p": {"l": rv["p"]["l"], "pr": [], "s": "", "ty": ""}}
                continue
        return None
    return None


def base_array_len(body, o):
    """N if the operand is (a reference / unsizing of) a local of type [u8; N] / &[u8; N]"""
    for _ in range(10):
        if o["c"] not in ("copy", "move"):
            return None
        l = o["p"]["l"]
        m = re.match(r"^&?(?:'?\w+ )?(?:mut )?\[u8; (\d+)\]$", body.locals[l])
        if m and not o["p"]["pr"]:
            return int(m.group(1))
        ds = body.whole_defs(l)
        if len(ds) != 1 or ds[0][0] != "assign":
            return None
        rv = ds[0][3]["r"]
        if rv["k"] in ("use", "cast"):
            o = rv["o"]
            continue
        if rv["k"] in ("ref", "copyderef"):
            m = re.match(r"^\[u8; (\d+)\]$", rv["p"]["ty"])
            if m:
                return int(m.group(1))
            o = {"c": "copy", "p": {"l": rv["p"]["l"], "pr": [], "s": "", "ty": ""}}
            if rv["p"]["pr"]:
                return None
            continue
        return None
    return None


def possible_ints(body, o, depth=0):
    """finite set of integer values an operand may hold (constants joined over branches, +,-,*), or None"""
    if depth > 8:
        return None
    if o["c"] == "const":
        return {o["int"]} if "int" in o else None
    if o["c"] not in ("copy", "move"):
        return None
    p = o["p"]
    if p["pr"]:
        # `.0` of a checked-arithmetic tuple
        if len(p["pr"]) == 1 and p["pr"][0][0] == "field" and p["pr"][0][2] == "0":
            return possible_ints(body, {"c": "copy", "p": {"l": p["l"], "pr": [], "s": "", "ty": ""}}, depth + 1)
        return None
    out = set()
    ds = body.whole_defs(p["l"])
    if not ds:
        return None
    for d in ds:
        if d[0] != "assign":
            return None
        rv = d[3]["r"]
        if rv["k"] in ("use", "cast"):
            v = possible_ints(body, rv["o"], depth + 1)
        elif rv["k"] == "binop" and rv["op"].replace("WithOverflow", "").replace("Unchecked", "") in ("Add", "Sub", "Mul"):
            a, b = possible_ints(body, rv["a"], depth + 1), possible_ints(body, rv["b"], depth + 1)
            if a is None or b is None:
                return None
            op = rv["op"].replace("WithOverflow", "").replace("Unchecked", "")
            v = set()
            for x in a:
                for y in b:
                    v.add(x + y if op == "Add" else x - y if op == "Sub" else x * y)
        else:
            return None
        if v is None or len(v) > 8:
            return None
        out |= v
    return out or None


LEN_RX = r"^[\w:<>' ,&\[\]]*::(len|remaining)\(%s\)$"


def length_facts(body, blk, base, base_op=None):
    """[(X, delta, guard)]: on every path to blk, len(base) >= X + delta, X a provenance string ('const:N' for constants).
    guard may be None for facts that hold by construction (fixed-size array, result of split_to(n))."""
    out = []
    if base is None:
        return out
    if base_op is not None:
        n = base_array_len(body, base_op)
        if n is not None:
            out.append(("const:%d" % n, 0, None))
        dc = base_def_call(body, base_op)
        if dc is not None:
            if dc.name in ("split_to",) and len(dc.args) >= 2:
                out.append((body.provenance_u(dc.args[1]), 0, None))
                vs = body.eval_ints(dc.args[1])
                if vs:
                    out.append(("const:%d" % min(vs), 0, None))
            if dc.name in ("index", "index_mut") and len(dc.args) >= 2:
                rp = body.provenance_u(dc.args[1])
                m = re.match(r"^Range\{const:(\d+),const:(\d+)\}$", rp)
                if m:
                    out.append(("const:%d" % (int(m.group(2)) - int(m.group(1))), 0, None))
                m = re.match(r"^RangeTo\{const:(\d+)\}$", rp)
                if m:
                    out.append(("const:%d" % int(m.group(1)), 0, None))
            if dc.name in ("as_mut_slice", "as_slice", "as_array", "as_mut_array") and dc.args:
                n = base_array_len(body, dc.args[0])
                t = dc.args[0]["p"]["ty"] if dc.args[0]["c"] in ("copy", "move") else ""
                m = re.search(r"\[u8; (\d+)\]|StackByteArray<(\d+)>", t)
                if n is None and m:
                    n = int(m.group(1) or m.group(2))
                if n is not None:
                    out.append(("const:%d" % n, 0, None))
    rx = re.compile(LEN_RX % re.escape(base))
    for g in body.guards(blk, select_aware=False):
        a = g.atom
        if a[0] == "call" and g.truth is not None:
            c = a[1]
            if c.name == "is_empty" and body.provenance_u(c.args[0]) == base and g.truth is False:
                out.append(("const:0", 1, g))
            if c.name == "has_remaining" and body.provenance_u(c.args[0]) == base and g.truth is True:
                out.append(("const:0", 1, g))
            if c.name == "starts_with" and body.provenance_u(c.args[0]) == base and g.truth is True and len(c.args) >= 2:
                out.append(("core::slice::len(%s)" % body.provenance_u(c.args[1]), 0, g))
            continue
        if a[0] != "cmp" or g.truth is None:
            continue
        op = a[1]
        xo, yo = a[2], a[3]
        x, y = body.provenance_u(xo), body.provenance_u(yo)
        if not g.truth:
            op = {"Lt": "Ge", "Le": "Gt", "Gt": "Le", "Ge": "Lt", "Eq": "Ne", "Ne": "Eq"}[op]
        if rx.match(y) and not rx.match(x):
            x, y, xo, yo = y, x, yo, xo
            op = {"Lt": "Gt", "Le": "Ge", "Gt": "Lt", "Ge": "Le", "Eq": "Eq", "Ne": "Ne"}[op]
        if rx.match(x):
            delta = {"Ge": 0, "Gt": 1, "Eq": 0}.get(op)
            if delta is not None:
                out.append((y, delta, g))
                vs = body.eval_ints(yo)
                if vs and const_of(y) is None:
                    out.append(("const:%d" % min(vs), delta, g))
            continue
        if op == "Lt" and re.search(r"Cursor::position\(%s\)$" % re.escape(base), x):
            out.append(("const:0", 1, g))
        if op == "Gt" and re.search(r"Cursor::position\(%s\)$" % re.escape(base), y):
            out.append(("const:0", 1, g))
    return out


def simplify(s):
    """fold constant arithmetic inside a provenance string"""
    if s is None:
        return s
    prev = None
    while prev != s:
        prev = s
        s = re.sub(r"Add\(const:(-?\d+),const:(-?\d+)\)", lambda m: "const:%d" % (int(m.group(1)) + int(m.group(2))), s)
        s = re.sub(r"Sub\(const:(-?\d+),const:(-?\d+)\)", lambda m: "const:%d" % (int(m.group(1)) - int(m.group(2))), s)
        s = re.sub(r"Mul\(const:(-?\d+),const:(-?\d+)\)", lambda m: "const:%d" % (int(m.group(1)) * int(m.group(2))), s)
        s = re.sub(r"const:[\w:<>]*::([A-Z_]+)\b(?=[,)}]|$)", lambda m: m.group(0), s)
    return s


def const_of(s):
    m = re.match(r"^const:(-?\d+)$", s)
    return int(m.group(1)) if m else None


def amount_satisfied(facts_, amount):
    """is len >= amount implied by one of the facts?  amount: provenance string"""
    amount = simplify(amount)
    facts_ = [(simplify(x), d, g) for x, d, g in facts_]
    ca = const_of(amount)
    if ca is not None and ca <= 0:
        return True
    for x, delta, g in facts_:
        g = g if g is not None else True
        cx = const_of(x)
        if ca is not None and cx is not None and cx + delta >= ca:
            return g
        if x == amount:
            return g
        # amount = Sub(X, const:k)
        m = re.match(r"^Sub\((.*),const:\d+\)$", amount)
        if m and m.group(1) == x:
            return g
        # X = Add(amount, k) or Add(k, amount)
        m = re.match(r"^Add\((.*)\)$", x)
        if m:
            inner = m.group(1)
            if inner.startswith(amount + ",") or inner.endswith("," + amount):
                return g
        # amount = Add(X, const:k) with k <= delta
        m = re.match(r"^Add\((.*),const:(\d+)\)$", amount)
        if m and m.group(1) == x and int(m.group(2)) <= delta:
            return g
        m = re.match(r"^Add\(const:(\d+),(.*)\)$", amount)
        if m and m.group(2) == x and int(m.group(1)) <= delta:
            return g
    return None


def _split_top(inner):
    depth = 0
    cut = None
    for i, ch in enumerate(inner):
        if ch in "({":
            depth += 1
        elif ch in ")}":
            depth -= 1
        elif ch == "," and depth == 0:
            cut = i
    return (inner[:cut], inner[cut + 1:]) if cut is not None else (inner, None)


def range_end(r):
    """amount of bytes a range argument needs"""
    if r.startswith("Range{"):
        a, b = _split_top(r[len("Range{"):-1])
        return b
    m = re.match(r"^RangeTo\{(.*)\}$", r)
    if m:
        return m.group(1)
    m = re.match(r"^RangeFrom\{(.*)\}$", r)
    if m:
        return m.group(1)
    m = re.match(r"^RangeInclusive\{", r)
    if m:
        return None
    if r.startswith("RangeFull"):
        return "const:0"
    ci = const_of(r)
    if ci is not None:
        return "const:%d" % (ci + 1)
    return "Add(%s,const:1)" % r


def base_operand_of_assert(body, t):
    m = re.search(r"len: (?:move|copy) _(\d+)", t["msg"])
    if not m:
        return None
    ds = body.whole_defs(int(m.group(1)))
    if len(ds) == 1 and ds[0][0] == "assign":
        rv = ds[0][3]["r"]
        if rv["k"] == "unop" and rv["op"] == "PtrMetadata":
            return rv["o"]
    return None


def requirement(body, blk, kind, call):
    """(base provenance, amount provenance, base operand): the site needs len(base) >= amount; amount None = unknown"""
    t = body.term(blk)
    if kind == "index" and t["k"] == "assert":
        bk, base = base_of_assert(body, t)
        idx = index_of_assert(body, t)
        bop = base_operand_of_assert(body, t)
        if idx is None:
            return base, None, bop
        ci = const_of(idx)
        return base, (("const:%d" % (ci + 1)) if ci is not None else "Add(%s,const:1)" % idx), bop
    c = call
    bop = c.args[0] if c.args else None
    base = body.provenance_u(bop) if bop else None
    if kind in ("index", "index_mut", "drain", "slice") and len(c.args) >= 2:
        return base, range_end(body.provenance_u(c.args[1])), bop
    if kind in ("split_to", "split_off", "advance", "copy_to_bytes") and len(c.args) >= 2:
        return base, body.provenance_u(c.args[1]), bop
    if kind.startswith("get_"):
        n = {"get_u8": 1, "get_i8": 1, "get_u16": 2, "get_i16": 2, "get_u32": 4, "get_i32": 4, "get_u64": 8, "get_i64": 8}.get(kind.replace("_le", ""))
        return base, (("const:%d" % n) if n else None), bop
    if kind == "copy_to_slice" and len(c.args) >= 2:
        dc = base_def_call(body, c.args[1])
        if dc is not None and dc.name == "from_elem" and len(dc.args) >= 2:
            return base, body.provenance_u(dc.args[1]), bop
        return base, None, bop
    return base, None, bop


def capacity_proved(body, blk, call):
    """growth of the 255-slot FrameBatch dominated by a comparison of its len() with the capacity constant"""
    base = body.provenance_u(call.args[0]) if call.args else None
    if base is None:
        return None
    if base.startswith("message::FrameBatch::new") and not body.loops_containing(blk) and call.name in ("push", "insert"):
        return "pushes onto a batch created empty in this function, outside any loop"
    lenrx = re.compile(r"message::FrameBatch::len\(%s\)" % re.escape(base))
    for g in body.guards(blk, select_aware=False):
        if g.atom[0] == "call" and g.truth is True and g.atom[1].callee == "message::FrameBatch::is_empty" and g.atom[1].args and call.name in ("push", "insert") \
                and body.provenance_u(g.atom[1].args[0]) == base and not any(body.dominates(g.s, h) for h, _ in body.loops_containing(blk) if h != g.s and not body.dominates(h, g.s)):
            return "the batch is empty on this edge (is_empty() == true, bb%d)" % g.s
        if g.atom[0] != "cmp" or g.truth is None:
            continue
        op = g.atom[1]
        x, y = simplify(body.provenance_u(g.atom[2])), simplify(body.provenance_u(g.atom[3]))
        if not g.truth:
            op = {"Lt": "Ge", "Le": "Gt", "Gt": "Le", "Ge": "Lt", "Eq": "Ne", "Ne": "Eq"}[op]
        cap = lambda v: const_of(v) == 255 or v.endswith("FrameBatch::MAX_FRAMES")
        if lenrx.search(x) and cap(y):
            if (x.startswith("message::FrameBatch::len(") and op == "Lt") or (x.startswith("Add(") and op in ("Le", "Lt")):
                return "bounded by the capacity check bb%d: %s" % (g.s, describe_guard(body, g)[:120])
        if lenrx.search(y) and cap(x):
            if (y.startswith("message::FrameBatch::len(") and op == "Gt") or (y.startswith("Add(") and op in ("Ge", "Gt")):
                return "bounded by the capacity check bb%d: %s" % (g.s, describe_guard(body, g)[:120])
    return None


def unwrap_proved(body, blk, call):
    """Option::unwrap dominated by is_some()/is_none() of the same value; try_into().unwrap() of a constant-width range into an array"""
    prov = body.provenance_u(call.args[0])
    for g in body.guards(blk, select_aware=False):
        if g.atom[0] == "call" and g.truth is not None:
            c = g.atom[1]
            if c.args and body.provenance_u(c.args[0]) == prov:
                if (c.name == "is_none" and g.truth is False) or (c.name == "is_some" and g.truth is True) or (c.name == "is_ok" and g.truth is True) or (c.name == "is_err" and g.truth is False):
                    return "dominated by %s() == %s on the same value" % (c.name, g.truth)
    if "try_into(" in prov:
        dc = base_def_call(body, call.args[0])
        # receiver = try_into(index(X, Range{a, a+k}))  with Result<[u8; k], _>
        ty = call.args[0]["p"]["ty"] if call.args[0]["c"] in ("copy", "move") else ""
        m = re.search(r"\[u8; (\d+)\]", ty)
        if dc is not None and dc.name == "try_into" and m and dc.args:
            ic = base_def_call(body, dc.args[0])
            if ic is not None and ic.name in ("index",) and len(ic.args) >= 2:
                r = body.provenance_u(ic.args[1])
                if r.startswith("Range{"):
                    a, b = _split_top(r[len("Range{"):-1])
                    k = int(m.group(1))
                    ca, cb = const_of(a), const_of(b) if b else None
                    if (ca is not None and cb is not None and cb - ca == k) or b in ("Add(%s,const:%d)" % (a, k), "Add(const:%d,%s)" % (k, a)):
                        return "slice of constant width %d converted into [u8; %d]" % (k, k)
    return None


def exact_len(body, o, depth=0):
    """exact constant length of the slice an operand refers to, when it is fixed by construction"""
    if depth > 4:
        return None
    if o["c"] == "const":
        m = re.search(r"\[u8; (\d+)\]", o.get("ty", ""))
        return int(m.group(1)) if m else None
    n = base_array_len(body, o)
    if n is not None:
        return n
    dc = base_def_call(body, o)
    if dc is None:
        return None
    m = re.search(r"^\[u8; (\d+)\]$", dc.dest["ty"])
    if m:
        return int(m.group(1))
    if dc.name in ("index", "index_mut") and len(dc.args) >= 2:
        r = simplify(body.provenance_u(dc.args[1]))
        m = re.match(r"^Range\{const:(\d+),const:(\d+)\}$", r)
        if m:
            return int(m.group(2)) - int(m.group(1))
        m = re.match(r"^RangeTo\{const:(\d+)\}$", r)
        if m:
            return int(m.group(1))
        m = re.match(r"^RangeFrom\{const:(\d+)\}$", r)
        if m:
            inner = exact_len(body, dc.args[0], depth + 1)
            return inner - int(m.group(1)) if inner is not None else None
        return None
    if dc.name in ("as_mut_slice", "as_slice") and dc.args:
        t = dc.args[0]["p"]["ty"] if dc.args[0]["c"] in ("copy", "move") else ""
        m = re.search(r"\[u8; (\d+)\]|StackByteArray<(\d+)>", t)
        if m:
            return int(m.group(1) or m.group(2))
        return exact_len(body, dc.args[0], depth + 1)
    if dc.name == "split_to" and len(dc.args) >= 2:
        return const_of(simplify(body.provenance_u(dc.args[1])))
    return None


def copy_from_slice_const(body, c):
    a, b = exact_len(body, c.args[0]), exact_len(body, c.args[1])
    return a is not None and a == b


def u64_parsed(body, o, depth=0):
    """does this operand derive (by value) from a 64-bit integer parsed out of wire bytes?"""
    if depth > 10 or o["c"] not in ("copy", "move"):
        return False
    if o["p"]["pr"]:
        return False
    for d in body.whole_defs(o["p"]["l"]):
        if d[0] == "call":
            c = mir.Call(body, d[1], d[3])
            if c.matches(r"from_be_bytes$|from_le_bytes$|Buf::get_u64"):
                if re.search(r"u64|usize", d[3]["dest"]["ty"]):
                    return True
        elif d[0] == "assign":
            rv = d[3]["r"]
            if rv["k"] in ("use", "cast") and u64_parsed(body, rv["o"], depth + 1):
                return True
            if rv["k"] == "binop" and (u64_parsed(body, rv["a"], depth + 1) or u64_parsed(body, rv["b"], depth + 1)):
                return True
    return False


def load_justified():
    with open(os.path.join(HERE, "c07_justified.json")) as fh:
        return json.load(fh)


SUMMARY_FILES = re.compile(r"core/src/message/mod\.rs")  # FrameBatch container: judged at its call sites


def panic_sites(prog):
    roots = ingress_roots(prog)
    cone = sorted(c for c in prog.reach(roots) if "::tests" not in c and "_tests::" not in c)
    sites = []
    for cpath in cone:
        body = prog.body(cpath)
        if body is None or not PARSER_FILES.search(body.file) or SUMMARY_FILES.search(body.file):
            continue
        live = body.live_blocks()
        seen = {}
        for i in sorted(live):
            blk = body.blocks[i]
            t = blk["t"]
            if blk["cleanup"] or is_plumbing(t):
                continue
            kind = base = None
            call = None
            if t["k"] == "assert":
                ak = t["ak"]
                if ak.startswith("BoundsCheck"):
                    bk, bv = base_of_assert(body, t)
                    if bk == "const":
                        continue  # fixed-size array indexed against its constant length
                    kind, base = "index", bv
                elif ak.startswith("Overflow"):
                    tainted = False
                    for st in blk["st"]:
                        if st["k"] == "assign" and st["r"]["k"] == "binop" and st["r"]["op"].endswith("WithOverflow"):
                            if u64_parsed(body, st["r"]["a"]) or u64_parsed(body, st["r"]["b"]):
                                tainted = True
                    if not tainted:
                        continue
                    kind, base = "overflow:" + re.sub(r"\(.*", "", t["msg"]), "value parsed from a 64-bit wire field"
                else:
                    continue
            elif t["k"] == "call":
                c = mir.Call(body, i, t)
                call = c
                if c.callee == "bytes::Bytes::copy_from_slice":
                    continue  # constructor, cannot panic
                if not PANIC_CALL.search(c.callee) and not PANIC_CALL.search(c.declared):
                    continue
                nm = c.name
                if c.callee.startswith("core::panicking") or c.callee.startswith("std::rt::begin_panic"):
                    mac = (t.get("exp") or "").split("<")[-1].replace("macro:", "")
                    kind, base = "panic:" + (mac or c.name), None
                elif nm in ("unwrap", "expect", "unwrap_err", "expect_err"):
                    kind, base = nm, body.provenance_u(c.args[0])
                else:
                    kind, base = nm, (body.provenance_u(c.args[0]) if c.args else None)
            if kind is None:
                continue
            ids = re.findall(r"[A-Za-z_][A-Za-z_0-9]*", re.sub(r"@\w+|\bconst\b", "", base or ""))
            k0 = "%s|%s|%s" % (short(cpath), kind, ids[-1] if ids else "-")
            n = seen.get(k0, 0)
            seen[k0] = n + 1
            key = k0 if n == 0 else "%s#%d" % (k0, n)
            sites.append((body, i, kind, base, key, call))
    return roots, cone, sites


def describe_guard(body, g):
    if g.atom[0] == "call":
        return "%s(%s)==%s" % (g.atom[1].callee, body.provenance_u(g.atom[1].args[0]) if g.atom[1].args else "", g.truth)
    if g.atom[0] == "cmp":
        return "cmp %s %s %s ==%s" % (g.atom[1], body.provenance_u(g.atom[2]), body.provenance_u(g.atom[3]), g.truth)
    if g.atom[0] in ("place", "discr"):
        return "%s %s [%s]" % (g.atom[0], g.atom[1], g.label)
    return g.atom[0]


def r1_panic_cone(chk):
    r = chk.rule("R1", "panic-freedom of the peer-facing parsers", "T8 panic-site reachability with guard verification",
                 "every panic-capable construct reachable from the ingress roots inside the parser/security/engine modules is (i) proved guarded: a dominating comparison implies len(buffer) >= the amount the access needs, or (ii) listed in rules/c07_justified.json with a reason and, where one exists, the guard that must keep dominating it; anything else is reported")
    just = load_justified()
    for cfg, prog in chk.configs():
        roots, cone, sites = panic_sites(prog)
        r.note("%s: %d ingress roots, %d bodies in the cone, %d panic-capable sites judged" % (cfg, len(roots), len(cone), len(sites)))
        site_keys = set(x[4] for x in sites)
        for body, blk, kind, base, key, call in sites:
            # (i) exact proof
            proved = None
            if kind in ("index", "index_mut", "split_to", "split_off", "advance", "copy_to_bytes", "copy_to_slice", "drain", "slice") or kind.startswith("get_"):
                b2, amount, bop = requirement(body, blk, kind, call)
                if amount is not None:
                    m_ = re.match(r"^std::cmp::Ord::min\((?:core::slice|std::vec::Vec|bytes::BytesMut)::len\((.*)\)\)$", amount)
                    if m_ and m_.group(1) == b2:
                        proved = "amount is min(len(%s), ..) <= len" % b2
                    else:
                        g = amount_satisfied(length_facts(body, blk, b2, bop), amount)
                        if g is True:
                            proved = "len(%s) >= %s by construction (fixed-size array / split_to / constant range)" % (b2[-60:], amount)
                        elif g is not None:
                            proved = "len(%s) >= %s by bb%d: %s" % (b2[-60:], amount, g.s, describe_guard(body, g)[:120])
            elif kind in ("unwrap", "expect") and call is not None:
                proved = unwrap_proved(body, blk, call)
            elif kind in ("push", "insert", "extend", "from") and call is not None:
                proved = capacity_proved(body, blk, call)
            elif kind == "copy_from_slice" and call is not None and copy_from_slice_const(body, call):
                proved = "destination array and constant source range have the same length"
            if proved:
                r.ok(cfg, key, where(body, blk), "guarded: " + proved)
                continue
            j = just.get(key)
            if j is None:
                # the function may have been renamed: same type, same construct, same buffer - and the listed name is gone
                def _split(k):
                    fn, kind_, ident = k.split("|", 2)
                    return fn.rsplit("::", 1)[0], kind_, ident
                cands = [k for k in just if _split(k) == _split(key) and k not in site_keys]
                if len(cands) == 1:
                    j = just[cands[0]]
            if j is not None:
                need = j.get("needs_guard")
                if need:
                    if not any(re.search(need, describe_guard(body, g)) for g in body.guards(blk, select_aware=False)):
                        r.bad(cfg, key, where(body, blk), "justified only under a dominating guard matching /%s/, which no longer dominates the site: %s" % (need, j["reason"]))
                        continue
                r.ok(cfg, key, where(body, blk), "justified: " + j["reason"])
                continue
            r.bad(cfg, key, where(body, blk), "panic-capable `%s` on `%s` is reachable from peer input; no dominating comparison implies the access is in range and the site is not in the justified table: a short / malformed / oversized input panics the connection task" % (kind, (base or "-")[:100]))
        floor = {"default": 40, "noplain": 35, "full": 70, "full-linux": 75}.get(cfg, 35)
        r.require(cfg, floor, "panic-capable sites in the ingress cone")


def r2_maxmsgsize(chk):
    r = chk.rule("R2", "MAXMSGSIZE is checked before allocation, strictly", "T3 guarded-by + T2 sibling agreement",
                 "in every manual decoder: frames are refused iff raw_size > max_msg_size (limit accepted, limit+1 rejected; check active iff max >= 0) and the check dominates the `as usize` cast and every buffer split/copy")
    for cfg, prog in chk.configs():
        for body in prog.bodies.values():
            if body.impl_self != "protocol::zmtp::manual_parser::ZmtpManualParser" or body.name not in ("decode_from_buffer", "decode_frame_from_slice", "decode_frame_from_bytes", "peek_frame_len") or body.kind == "closure":
                continue
            key = "%s|size check" % short(body.path)
            gt_edges, ge_edges, bad_ops = [], [], []
            for sblk in range(body.n):
                t = body.term(sblk)
                if t["k"] != "switch" or t["dty"] != "bool":
                    continue
                a, pol = body.cond_atom(t["d"])
                if a[0] != "cmp":
                    continue
                x, y = body.provenance_u(a[2]), body.provenance_u(a[3])
                if "max_msg_size" not in x and "max_msg_size" not in y:
                    continue
                op = a[1]
                if "max_msg_size" in x and "max_msg_size" not in y:
                    x, y = y, x
                    op = {"Lt": "Gt", "Le": "Ge", "Gt": "Lt", "Ge": "Le", "Eq": "Eq", "Ne": "Ne"}[op]
                if not pol:
                    op = {"Lt": "Ge", "Le": "Gt", "Gt": "Le", "Ge": "Lt", "Eq": "Ne", "Ne": "Eq"}[op]
                # now:  x op max   (x = raw size or const 0)
                t_lab, f_lab = body.bool_edge_label(sblk, True), body.bool_edge_label(sblk, False)
                if const_of(simplify(x)) == 0:
                    # 0 <= max  /  max >= 0  : "limit active"
                    if op in ("Le",):
                        ge_edges.append((sblk, f_lab))  # false edge = unlimited
                    elif op in ("Gt",):
                        ge_edges.append((sblk, t_lab))
                    else:
                        bad_ops.append("activation test `0 %s max`" % op)
                else:
                    if op == "Gt":
                        gt_edges.append((sblk, f_lab))  # false edge = accepted
                    elif op == "Le":
                        gt_edges.append((sblk, t_lab))
                    else:
                        bad_ops.append("size test `size %s max` (must reject exactly size > max)" % op)
            if bad_ops:
                r.bad(cfg, key, where(body, 0), "; ".join(bad_ops))
                continue
            if not gt_edges:
                r.bad(cfg, key, where(body, 0), "no comparison of the announced frame size with max_msg_size found")
                continue
            if not ge_edges:
                r.bad(cfg, key, where(body, 0), "no `max_msg_size >= 0` activation test found (negative = unlimited)")
                continue
            r.ok(cfg, key, where(body, gt_edges[0][0]), "rejects iff size > max, active iff max >= 0")
            # allocation-ish sites must be unreachable once both accepting edges are removed
            sites = []
            for b, i, st in body.statements():
                if st["k"] == "assign" and st["r"]["k"] == "cast" and st["r"]["ck"] == "IntToInt" and st["r"]["from"] == "u64" and st["r"]["to"] == "usize":
                    if "from_be_bytes" in body.provenance_u(st["r"]["o"]) or "raw_size" in body.provenance_u(st["r"]["o"]):
                        sites.append((b, "raw_size as usize"))
            for c in body.calls:
                if c.name in ("split_to", "to_vec", "slice", "with_capacity", "reserve", "copy_to_bytes") and c.blk in body.live_blocks():
                    # only those in the header-parsing state (dominated by the size test block's predecessors): skip ReadBody-state sites
                    sites.append((c.blk, c.name))
            reach = body.reachable([0], avoid_edges=set(gt_edges) | set(ge_edges))
            for b, what in sites:
                k2 = "%s|%s after size check" % (short(body.path), what)
                # sites in a different decoder state (resumed body read) are reachable without re-checking: they use the stored, already checked size
                if b in reach:
                    gs = [g for g in body.guards(b, select_aware=False) if g.atom[0] == "discr" and ".state" in g.atom[1] and g.label != 0]
                    if gs:
                        r.ok(cfg, k2 + " (ReadBody state)", where(body, b), "resumes with the size that was checked when the header was parsed")
                        continue
                    r.bad(cfg, k2, where(body, b), "`%s` is reachable without passing the MAXMSGSIZE comparison: an oversized announced length is cast/allocated before it is refused" % what)
                else:
                    r.ok(cfg, k2, where(body, b))
        r.require(cfg, 8, "size-check obligations in the four manual decoders")


# ----------------------------------------------------------------------------
# R2b: the limit every decoder enforces is the configured ZMQ_MAXMSGSIZE
# ----------------------------------------------------------------------------
LIMIT_SOURCE = re.compile(r"(^|\.)(max_msg_size|maxmsgsize)$")


def _call_sites_of(prog, sp):
    out = []
    for b in prog.bodies.values():
        if "::tests" in b.path or "_tests::" in b.path:
            continue
        for c in b.calls:
            if sp in prog.callees_of_call(c):
                out.append(c)
    return out


def _trace_limit(prog, body, o, depth, seen, out):
    """follow the value of a size-limit operand back to where it comes from: a config/option field (good), a constant (bad),
    or a parameter (then every call site of the function is followed)"""
    if depth > 8:
        out.append(("unknown", body, None, "call chain deeper than 8"))
        return
    sl = body.data_slice(o)
    leaves = [x for x in sl if x[0] != "call" or not x[1].endswith("clone")]
    consts = [x for x in leaves if x[0] == "const"]
    srcs = [x for x in leaves if x[0] == "place" and LIMIT_SOURCE.search(x[1])]
    params = [x for x in leaves if x[0] == "param"]
    other = [x for x in leaves if x not in consts and x not in srcs and x not in params and not (x[0] == "place" and any(x[1] == s_[1].rsplit(".", 1)[0] for s_ in srcs)) and x[0] != "call"]
    blk = None
    if srcs:
        out.append(("ok", body, blk, "reads %s" % ", ".join(sorted(x[1] for x in srcs))))
        params = []  # the option field itself was read here; what lies upstream is the config object, not the limit
    if consts and not srcs and not params:
        out.append(("const", body, blk, "constant %s" % ", ".join(sorted(str(x[1]) for x in consts))))
    elif consts and (srcs or params):
        out.append(("const", body, blk, "a constant (%s) can replace the configured value on some path" % ", ".join(sorted(str(x[1]) for x in consts))))
    names, _ = body.names
    for x in params:
        idx = next((i for i in range(1, body.rec.get("argc", 0) + 1) if names.get(i) == x[1]), None)
        sp = strip_generics(body.path)
        if idx is None or (sp, idx) in seen:
            continue
        seen.add((sp, idx))
        sites = _call_sites_of(prog, sp)
        if not sites:
            out.append(("dead", body, blk, "parameter `%s` of %s, which has no call site in this configuration" % (x[1], short(body.path))))
        for c in sites:
            if idx - 1 < len(c.args):
                sub = []
                _trace_limit(prog, c.body, c.args[idx - 1], depth + 1, seen, sub)
                for st, b2, k2, why in sub:
                    out.append((st, b2 if st != "ok" else b2, c.blk if b2 is c.body and k2 is None else k2, why))
    if not srcs and not consts and not params:
        out.append(("unknown", body, blk, "derives from %s" % sorted(other)[:4]))


def r2b_limit_is_the_option(chk):
    r = chk.rule("R2b", "the size limit every decoder enforces is the configured ZMQ_MAXMSGSIZE", "T11 derives-from (interprocedural)",
                 "the max_msg_size stored in every ZmtpManualParser (and handed to every free decoder function) derives, through every chain of constructors and trait "
                 "methods, from ZmtpEngineConfig::max_msg_size, which From<&SocketOptions> copies from the MAXMSGSIZE option; no chain substitutes a constant")
    for cfg, prog in chk.configs():
        n = 0
        sinks = []
        for b in prog.bodies.values():
            if "::tests" in b.path or "_tests::" in b.path:
                continue
            for blk, i, st in b.aggregates():
                rv = st["r"]
                if rv.get("ak") == "adt" and rv.get("adt") == "protocol::zmtp::manual_parser::ZmtpManualParser" and "max_msg_size" in (rv.get("fields") or []):
                    sinks.append((b, blk, rv["ops"][rv["fields"].index("max_msg_size")], "ZmtpManualParser.max_msg_size"))
                if rv.get("ak") == "adt" and rv.get("adt") == "socket::options::ZmtpEngineConfig" and "max_msg_size" in (rv.get("fields") or []) and b.impl_trait and "From" in b.impl_trait:
                    o = rv["ops"][rv["fields"].index("max_msg_size")]
                    n += 1
                    sl = b.data_slice(o)
                    key = "ZmtpEngineConfig::from|max_msg_size is the MAXMSGSIZE option"
                    if any(x[0] == "place" and x[1].endswith(".maxmsgsize") for x in sl) and not any(x[0] == "const" for x in sl):
                        r.ok(cfg, key, where(b, blk), "options.maxmsgsize")
                    else:
                        r.bad(cfg, key, where(b, blk), "the engine's size limit is not copied from SocketOptions::maxmsgsize (slice: %s)" % sorted(sl)[:4])
        # free decoder functions that take the limit as a parameter
        for b in prog.bodies.values():
            if b.impl_self == "protocol::zmtp::manual_parser::ZmtpManualParser" and b.kind in ("fn", "assoc_fn") and "::tests" not in b.path:
                names, _ = b.names
                for i in range(1, b.rec.get("argc", 0) + 1):
                    if names.get(i) == "max_msg_size" and b.name != "new":
                        for c in _call_sites_of(prog, strip_generics(b.path)):
                            sinks.append((c.body, c.blk, c.args[i - 1], "%s(.., max_msg_size)" % b.name))
        for b, blk, o, what in sinks:
            res = []
            _trace_limit(prog, b, o, 0, set(), res)
            n += 1
            key = "%s|%s derives from the option" % (short(b.path), what)
            for x in res:
                if x[0] == "dead":
                    r.note("%s: %s not judged on one chain: %s" % (cfg, what, x[3]))
            res = [x for x in res if x[0] != "dead"]
            bad = [x for x in res if x[0] != "ok"]
            if bad:
                st, b2, k2, why = bad[0]
                r.bad(cfg, "%s|%s" % (short(b2.path), "decoder limit is the configured option"), where(b2, k2 if k2 is not None else 0),
                      "the limit that reaches %s is not the configured ZMQ_MAXMSGSIZE on this chain: %s. A decoder built with another limit accepts frames of limit+1 bytes (or buffers an oversized frame) although the option is set" % (what, why))
            elif res:
                r.ok(cfg, key, where(b, blk), "; ".join(sorted(set("%s: %s" % (short(x[1].path), x[3]) for x in res)))[:300])
            else:
                r.ok(cfg, key, where(b, blk), "only dead chains in this configuration")
        r.require(cfg, 2, "decoder-limit sinks")


def r3_accumulator_cap(chk):
    r = chk.rule("R3", "the read accumulator is capped before every network read", "T3 guarded-by",
                 "read_and_process refuses to read while engine.buffer_len() exceeds the hard cap")
    for cfg, prog in chk.configs():
        for body in prog.find_bodies(r"message_processor::ZmqMessageProcessor::read_and_process::\{closure#0\}$"):
            reads = [c for c in body.calls if c.name in ("read_buf", "try_read_chunk", "read")]
            for c in reads:
                key = "%s|%s under cap" % (short(body.path), c.name)
                ok = False
                for g in body.guards(c.blk, select_aware=False):
                    nc = norm_cmp(body, g)
                    if nc and "buffer_len" in body.provenance_u(g.atom[2]) + body.provenance_u(g.atom[3]) and isinstance(nc[2], int):
                        lo, hi = interval(nc[1], nc[2])
                        if hi != INF and hi <= 64 * 1024 * 1024:
                            ok = True
                if ok:
                    r.ok(cfg, key, where(body, c.blk), "dominated by buffer_len() <= cap")
                else:
                    r.bad(cfg, key, where(body, c.blk), "network read not dominated by an upper bound on the engine's unread accumulator: a peer that never completes a frame makes the session buffer without bound")
        r.require(cfg, 2, "network reads in read_and_process")


def r5_handshake_deadline(chk):
    r = chk.rule("R5", "the handshake interval is an absolute deadline", "T4 loop-invariance of the time bound",
                 "inside the handshake read loop the time bound is a deadline fixed before the loop (timeout_at), not a per-read timeout that every byte re-arms")
    for cfg, prog in chk.configs():
        n = 0
        for body in prog.find_bodies(r"sessionx::actor::SessionConnectionActorX::run_loop::\{closure#0\}$"):
            for c in body.calls:
                if not c.matches(r"^tokio::time::(timeout|timeout_at)$"):
                    continue
                loops = body.loops_containing(c.blk)
                if not loops:
                    continue
                h, lb = loops[0]
                if not any(x.matches(r"ZmtpEngine::on_network_bytes$") and x.blk in lb for x in body.calls):
                    continue
                n += 1
                key = "%s|handshake read time bound" % short(body.path)
                org = body.value_origin(c.args[0])
                if org[0] == "call":
                    inside = org[1].blk in lb
                elif org[0] == "place":
                    inside = any(b in lb for b in body.def_blocks(org[1]["l"]))
                else:
                    inside = False
                if c.name == "timeout_at" and not inside:
                    r.ok(cfg, key, where(body, c.blk), "timeout_at(deadline) with the deadline computed before the loop")
                elif c.name == "timeout" and inside:
                    r.ok(cfg, key, where(body, c.blk), "timeout(remaining) recomputed on every iteration")
                elif c.name == "timeout":
                    r.bad(cfg, key, where(body, c.blk), "per-read `timeout(d, read)` with a loop-invariant duration: the limit restarts on every read, so a peer dripping one byte per interval is never disconnected (handshake_deadline is not consulted)")
                else:
                    r.bad(cfg, key, where(body, c.blk), "timeout_at deadline recomputed inside the loop: it moves with every read")
        if n == 0:
            r.bad(cfg, "anchor|handshake loop", "-", "no timed read found in the session's handshake loop: the handshake has no time limit")
        # sibling back-end
        if cfg in ("full-linux",):
            uses = []
            for body in prog.bodies.values():
                if "io_uring_backend" not in body.path:
                    continue
                for b, i, st in body.statements():
                    if st["k"] == "assign":
                        rv = st["r"]
                        for pl in ([rv.get("p")] if rv.get("p") else []) + ([rv["o"]["p"]] if rv.get("o", {}).get("p") else []):
                            if pl and any(e[0] == "field" and e[2] in ("handshake_timeout", "handshake_deadline") for e in pl["pr"]):
                                uses.append(body.path)
            key = "io_uring_backend|handshake timer"
            if uses:
                r.ok(cfg, key, uses[0], "the io_uring handler reads the handshake time limit")
            else:
                r.bad(cfg, key, "core/src/io_uring_backend/zmtp_handler.rs", "the io_uring connection handler never reads handshake_timeout/handshake_deadline: a peer that stalls the handshake on the io_uring backend is never disconnected (sibling back-end disagreement)")


def r6_permit(chk):
    r = chk.rule("R6", "the connection permit lives as long as the session", "T1 who-may-write",
                 "_connection_permit is written only by the constructor and never taken")
    for cfg, prog in chk.configs():
        n = 0
        for body in prog.bodies.values():
            if "::tests" in body.path:
                continue
            for b, i, st in body.statements():
                if st["k"] != "assign":
                    continue
                p = st["p"]
                if p["pr"] and p["pr"][-1][0] == "field" and p["pr"][-1][2] == "_connection_permit":
                    n += 1
                    r.bad(cfg, "%s|writes _connection_permit" % short(body.path), where(body, b), "the MAX_CONNECTIONS permit is overwritten after construction: the slot is released while the session lives")
            for c in body.calls:
                if c.name in ("take", "replace") and (c.recv() or "").endswith("._connection_permit"):
                    r.bad(cfg, "%s|takes _connection_permit" % short(body.path), where(body, c.blk), "the MAX_CONNECTIONS permit is taken out of the session before it ends")
            for b, i, st in body.aggregates():
                rv = st["r"]
                if rv.get("adt", "").endswith("SessionConnectionActorX") and "_connection_permit" in rv.get("fields", []):
                    idx = rv["fields"].index("_connection_permit")
                    prov = body.provenance_u(rv["ops"][idx])
                    key = "%s|constructs session with permit" % short(body.path)
                    if prov in ("const",) or "None" in prov:
                        r.bad(cfg, key, where(body, b), "session constructed with a constant permit value")
                    else:
                        r.ok(cfg, key, where(body, b), "permit moved in from the caller: " + prov[:80])
        r.require(cfg, 1, "session constructor storing the permit")


def run(chk):
    chk.undecided = ["'keeps decoding' liveness", "memory bounds other than MAXMSGSIZE and the accumulator cap", "panics inside external crates beyond the summary list"]
    r1_panic_cone(chk)
    r2_maxmsgsize(chk)
    r2b_limit_is_the_option(chk)
    r3_accumulator_cap(chk)
    r5_handshake_deadline(chk)
    r6_permit(chk)
