#!/bin/bash
# Run the pinned baseline suite (guard off: there are no hooks) on a checkout of
# rzmq and report which of the 223 stable tests did not pass.
# usage: tools/baseline.sh [repo-dir]   (default /repo)
set -u
REPO=${1:-/repo}
cd "$REPO" || exit 2
export CARGO_NET_OFFLINE=true
OUT=$(mktemp)
RUNCMD='cargo nextest run --workspace --no-fail-fast --tool-config-file pb:/w/lib/nextest.toml --profile pb --test-threads 8 --offline'
# tests bind fixed TCP ports: use a private network namespace when available so parallel runs do not clash
if unshare -n true 2>/dev/null; then
  unshare -n sh -c "ip link set lo up; $RUNCMD" >"$OUT" 2>&1
else
  $RUNCMD >"$OUT" 2>&1
fi
J="$REPO/target/nextest/pb/junit.xml"
[ -n "${CARGO_TARGET_DIR:-}" ] && J="$CARGO_TARGET_DIR/nextest/pb/junit.xml"
python3 - "$J" "$OUT" <<'PY'
import json,sys,xml.etree.ElementTree as ET
base=json.load(open('/root/.vp/BASELINE.json'))
stable=set(base['stable_pass'])
try:
    root=ET.parse(sys.argv[1]).getroot()
except Exception as e:
    print("no junit:",e); print(open(sys.argv[2]).read()[-3000:]); sys.exit(2)
passed=set(); failed=set()
for ts in root.iter('testsuite'):
    for tc in ts.iter('testcase'):
        cn=tc.get('classname'); n=tc.get('name')
        name=cn+'::'+n
        bad = tc.find('failure') is not None or tc.find('error') is not None
        (failed if bad else passed).add(name)
missing=sorted(s for s in stable if s not in passed)
print("passed=%d failed=%d stable_missing=%d"%(len(passed),len(failed),len(missing)))
for m in missing: print("  NOT PASSING:",m, "(failed)" if m in failed else "(not run)")
sys.exit(1 if missing else 0)
PY
rc=$?
rm -f "$OUT"
exit $rc
