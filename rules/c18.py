"""C18 — encrypted connections keep data secret, detect tampering, and stay decodable.

Decides: no length field is written from an unbounded narrowing cast, everything the engine emits in
the data phase goes through the active framer, the CURVE nonce discipline, that decrypt errors
propagate, and whether CURVE session keys depend on ephemeral material.  Not: the cryptography."""
import re

from vlib import mir
from vlib.mir import strip_generics
from vlib.util import where, short, is_plumbing, norm_cmp, interval, INF

MAXV = {"u8": 255, "u16": 65535, "u32": 4294967295}

CAST_JUSTIFIED = {
    "command::ZmtpReady::encode_properties|put_u32(Some as u32)": "READY property values are local options (routing id <= 255 bytes, socket-type names); a 4 GiB Vec<u8> cannot be configured",
}


def cast_of(body, o, depth=0):
    """(cast statement, block) when the operand is the result of a narrowing IntToInt cast"""
    for _ in range(8):
        if o["c"] not in ("copy", "move") or o["p"]["pr"]:
            return None
        ds = body.whole_defs(o["p"]["l"])
        if len(ds) != 1 or ds[0][0] != "assign":
            return None
        rv = ds[0][3]["r"]
        if rv["k"] == "cast" and rv["ck"] == "IntToInt":
            return ds[0][3], ds[0][1]
        if rv["k"] == "use":
            o = rv["o"]
            continue
        return None
    return None


def r1_no_truncation(chk):
    r = chk.rule("R1", "no silent truncation of a length field", "T3 guarded-by",
                 "every narrowing integer cast whose result is written with put_u8/put_u16/put_u32 in security/ and protocol/ is bounded (dominating comparison, min(), try_from, or a constant)")
    for cfg, prog in chk.configs():
        for body in prog.bodies.values():
            if not re.search(r"core/src/(security|protocol)/", body.file) or "::tests" in body.path or "_tests::" in body.path:
                continue
            for c in body.calls:
                if c.name not in ("put_u8", "put_u16", "put_u32") or len(c.args) < 2:
                    continue
                cs = cast_of(body, c.args[1])
                if cs is None:
                    continue
                st, cb = cs
                to, frm = st["r"]["to"], st["r"]["from"]
                if to not in MAXV or frm in ("u8",) or (frm == "u16" and to != "u8") or frm == to:
                    continue
                src = body.provenance(st["r"]["o"])
                key = "%s|%s(%s as %s)" % (short(body.path), c.name, re.findall(r"[A-Za-z_]\w*", src)[-1] if re.findall(r"[A-Za-z_]\w*", src) else "?", to)
                n = len([i for i in r.instances if i["config"] == cfg and i["key"].startswith(key)])
                if n:
                    key += "#%d" % n
                mx = MAXV[to]
                ok = None
                cv = body.const_int(st["r"]["o"])
                if cv is not None and 0 <= cv <= mx:
                    ok = "constant %d" % cv
                m = re.search(r"Ord::min\(", src)
                if ok is None and m:
                    ok = "clamped with min()"
                if ok is None and frm == "bool":
                    ok = "bool -> integer"
                if ok is None and re.match(r"^(core::str::len|core::slice::len|str::len)\(const:?[^()]*\)$", src):
                    ok = "length of a constant literal"
                if ok is None:
                    for g in body.guards(c.blk, select_aware=False):
                        if g.atom[0] != "cmp" or g.truth is None:
                            continue
                        op = g.atom[1] if g.truth else {"Lt": "Ge", "Le": "Gt", "Gt": "Le", "Ge": "Lt", "Eq": "Ne", "Ne": "Eq"}[g.atom[1]]
                        x, y = body.provenance(g.atom[2]), body.provenance(g.atom[3])
                        cx, cy = body.const_int(g.atom[2]), body.const_int(g.atom[3])
                        if x == src and cy is not None:
                            lo, hi = interval(op, cy)
                        elif y == src and cx is not None:
                            lo, hi = interval({"Lt": "Gt", "Le": "Ge", "Gt": "Lt", "Ge": "Le", "Eq": "Eq", "Ne": "Ne"}[op], cx)
                        else:
                            continue
                        if hi <= mx:
                            ok = "dominated by `%s <= %d`" % (src[-40:], hi)
                if ok is None and key in CAST_JUSTIFIED:
                    ok = "justified: " + CAST_JUSTIFIED[key]
                if ok:
                    r.ok(cfg, key, where(body, c.blk), ok)
                else:
                    r.bad(cfg, key, where(body, c.blk), "`%s as %s` is written as a length/field without a bound: a value above %d is silently truncated and the peer's stream is desynchronised (must be refused at the sender)" % (src[-60:], to, mx))
        r.require(cfg, 6, "narrowing casts feeding put_u8/u16/u32")


def r2_data_phase_through_framer(chk):
    r = chk.rule("R2", "everything emitted in the data phase goes through the active framer", "T11 derives-from",
                 "in on_tick / process_data / on_app_message the bytes of every NetAction::Send come from self.framer (not from the plain codec): on CURVE/Noise links heartbeats must be sealed records")
    for cfg, prog in chk.configs():
        for nm in ("on_tick", "process_data", "on_app_message"):
            b = prog.body("protocol::zmtp::engine::ZmtpEngine::" + nm)
            if b is None:
                r.bad(cfg, "anchor|" + nm, "-", "not found")
                continue
            for blk, i, st in b.aggregates():
                if st["r"].get("variant") != "Send" or not st["r"].get("adt", "").endswith("NetAction"):
                    continue
                idx = st["r"]["fields"].index("data") if "data" in st["r"].get("fields", []) else 0
                pv = b.provenance(st["r"]["ops"][idx])
                key = "%s|Send data source#%d" % (nm, len([x for x in r.instances if x["config"] == cfg and x["key"].startswith(nm + "|")]))
                via = None
                if re.search(r"ISecureFramer::write_msg", pv):
                    via = "self.framer"
                else:
                    m = re.search(r"ZmtpEngine::(\w+)\(", pv)
                    if m:
                        hb = prog.body("protocol::zmtp::engine::ZmtpEngine::" + m.group(1))
                        if hb is not None and any(c.trait == "security::framer::ISecureFramer" and c.name.startswith("write_msg") for c in hb.calls) and not any(c.matches(r"engine::encode_msg$") for c in hb.calls):
                            via = "self.framer via " + m.group(1)
                if via:
                    r.ok(cfg, key, where(b, blk), via)
                else:
                    r.bad(cfg, key, where(b, blk), "data-phase bytes are produced by `%s`, not by the active framer: on an encrypted connection they go out in clear and break the record stream" % pv[:80])
        r.require(cfg, 3, "data-phase Send constructions")


def r3_nonce(chk):
    r = chk.rule("R3", "CURVE nonce discipline", "T3",
                 "the receive counter advances only after a successful open; the send counter advances on every encrypt; the nonce is built from the counter")
    for cfg, prog in chk.configs(needs=("full-linux", "full")):
        for nm, field, must_follow in (("decrypt", "recv_nonce_counter", r"crypto_box_open_detached_afternm"), ("encrypt", "send_nonce_counter", r"crypto_box_detached_afternm")):
            b = prog.body("<security::curve::cipher::CurveDataCipher as security::cipher::IDataCipher>::" + nm)
            if b is None:
                r.bad(cfg, "anchor|CurveDataCipher::" + nm, "-", "not found")
                continue
            incs = [blk for blk, i, st in b.statements() if st["k"] == "assign" and st["p"]["pr"] and st["p"]["pr"][-1][0] == "field" and st["p"]["pr"][-1][2] == field]
            prim = [c for c in b.calls if c.matches(must_follow)]
            key = "%s|%s += 1 after the primitive" % (nm, field)
            ok = bool(incs and prim) and all(b.dominates(prim[0].blk, x) and x != prim[0].blk for x in incs)
            if ok and nm == "decrypt":
                # only on the success edge of the `?`
                ok = any(g.atom[0] == "discr" and g.atom[2].startswith("std::ops::ControlFlow<") and g.is_value(0) and "crypto_box_open" in g.atom[1] for x in incs for g in b.guards(x, select_aware=False))
            (r.ok if ok else r.bad)(cfg, key, where(b, incs[0] if incs else 0), *([] if ok else ["the %s is not advanced exactly after a successful %s: replayed / failed records shift the nonce stream" % (field, "open" if nm == "decrypt" else "seal")]))
            nc = [c for c in b.calls if c.matches(r"CurveDataCipher::construct_nonce$")]
            ok2 = bool(nc) and field in b.provenance(nc[0].args[0])
            (r.ok if ok2 else r.bad)(cfg, "%s|nonce built from %s" % (nm, field), where(b, nc[0].blk if nc else 0), *([] if ok2 else ["the nonce does not derive from " + field]))
        r.require(cfg, 4, "nonce obligations")


def r4_decrypt_propagates(chk):
    r = chk.rule("R4", "decrypt errors propagate", "T2", "every IDataCipher::decrypt result is propagated with `?` (never defaulted)")
    for cfg, prog in chk.configs():
        for c in prog.all_calls():
            if not (c.trait == "security::cipher::IDataCipher" and c.name == "decrypt") or "::tests" in c.body.path:
                continue
            b = c.body
            key = "%s|decrypt()? " % short(b.path)
            nxt = [x for x in b.calls if x.blk == c.target]
            ok = bool(nxt) and nxt[0].declared == "std::ops::Try::branch"
            (r.ok if ok else r.bad)(cfg, key, where(b, c.blk), *([] if ok else ["the result of decrypt() is not propagated with `?`: a tampered record could be replaced by a default / ignored"]))
        r.require(cfg, 1 if cfg in ("full-linux", "full") else 0, "decrypt call sites")


def r5_session_keys(chk):
    r = chk.rule("R5", "session keys depend on ephemeral key material", "T11 derives-from",
                 "the key-derivation call in CurveHandshake::into_session_keys takes an input that derives from an ephemeral key, so two sessions between the same static keys get different data keys")
    for cfg, prog in chk.configs(needs=("full-linux", "full")):
        b = prog.body("security::curve::handshake::CurveHandshake::into_session_keys")
        if b is None:
            r.bad(cfg, "anchor|into_session_keys", "-", "not found")
            continue
        eph = False
        for c in b.calls:
            for a in c.args:
                pv = b.provenance(a)
                if re.search(r"ephemeral|precomputed", pv):
                    eph = True
        key = "into_session_keys|uses ephemeral material"
        if eph:
            r.ok(cfg, key, where(b, 0))
        else:
            r.bad(cfg, key, where(b, 0), "the data-phase keys are derived from the two STATIC key pairs only (crypto_kx) and the nonce counter restarts at 1: two sessions between the same peers encrypt equal plaintext to equal bytes")


def r6_priority_only_when_passthrough_now(chk, rid="R6"):
    r = chk.rule(rid, "control frames jump the egress queue only when the framer adds no record layer at that moment", "T3 guarded-by + freshness",
                 "every EgressBuffer::push_priority is dominated by the true edge of ZmtpEngine::is_passthrough(), and that call is evaluated after the last suspension point / engine mutation "
                 "before the push (a value read before the handshake describes the NULL framer): a sealed PING/PONG queued ahead of records sealed earlier fails the peer's MAC check")
    for cfg, prog in chk.configs():
        n = 0
        for c in prog.calls_to(r"EgressBuffer::push_priority$"):
            b = c.body
            if "::tests" in b.path:
                continue
            n += 1
            key = "%s|push_priority#%d under a fresh is_passthrough()" % (short(b.path), [x.blk for x in b.calls if x.name == "push_priority"].index(c.blk))
            gcs = [g.atom[1] for g in b.guards(c.blk) if g.atom[0] == "call" and g.atom[1].matches(r"ZmtpEngine::is_passthrough$") and g.truth is True]
            if not gcs:
                r.bad(cfg, key, where(b, c.blk), "push_priority is not guarded by is_passthrough() == true: with an encrypting framer the record order on the wire no longer matches the nonce order")
                continue
            fresh = False
            for gc in gcs:
                if gc.target is None:
                    continue
                btw = b.reachable([gc.target], avoid_blocks=[gc.blk]) & b.bwd_reachable([c.blk], avoid_blocks=[gc.blk])
                # only the straight-line region between the test and the push: blocks that can come back to the test are a new iteration
                ys = [x for x in btw if b.term(x)["k"] == "yield"]
                muts = [x2 for x2 in b.calls if x2.blk in btw and x2.blk != c.blk and x2.matches(r"ZmtpEngine::(on_network_bytes|on_tick|on_app_message|start|close|frame_\w+)$|ZmqMessageProcessor::read_and_process$|apply_engine_output")]
                if not ys and not muts:
                    fresh = True
            if fresh:
                r.ok(cfg, key, where(b, c.blk), "is_passthrough() is called right before the push (no await, no engine call in between)")
            else:
                r.bad(cfg, key, where(b, c.blk), "the is_passthrough() value that guards this push was read at %s, and the task awaits / drives the engine between that read and the push: the framer may have been replaced by the negotiated (encrypting) one in the meantime" % gcs[0].sp.split("/")[-1])
        r.require(cfg, 2, "push_priority sites")


def r7_directional_keys(chk):
    r = chk.rule("R7", "the two directions of a CURVE connection use different keys", "T9 the two key operands are distinct values",
                 "wherever a pair (rx key, tx key) is built or handed to the data cipher, the two components are different values: "
                 "one key for both directions makes record n of one direction a valid record n of the other (reflection) and reuses the keystream")
    for cfg, prog in chk.configs(needs=("full-linux", "full")):
        n = 0
        for body in prog.bodies.values():
            if "security::curve" not in body.path or "::tests" in body.path:
                continue
            pairs = []
            # Ok((rx, tx)) of a key-pair producing function, and the two key arguments of the cipher constructor
            for blk, i, st in body.aggregates():
                rv = st["r"]
                if rv.get("ak") == "tuple" and len(rv["ops"]) == 2 and all(o["c"] in ("copy", "move") and o["p"]["ty"] == "[u8; 32]" for o in rv["ops"]):
                    pairs.append((blk, rv["ops"][0], rv["ops"][1], "key pair"))
            for c in body.calls:
                if c.callee.endswith("CurveDataCipher::new") and len(c.args) == 2:
                    pairs.append((c.blk, c.args[0], c.args[1], "CurveDataCipher::new"))
            for blk, a, b_, what in pairs:
                n += 1
                key = "%s|%s components are distinct" % (short(body.path), what)
                oa, ob = body.value_origin(a), body.value_origin(b_)
                same = False
                if oa[0] == ob[0] == "place" and oa[1]["l"] == ob[1]["l"] and oa[1]["pr"] == ob[1]["pr"]:
                    same = True
                if oa[0] == ob[0] == "call" and oa[1].blk == ob[1].blk:
                    same = True
                pa, pb = body.provenance(a), body.provenance(b_)
                if pa == pb and not pa.startswith("const") and oa[0] != "other":
                    same = True
                if same:
                    r.bad(cfg, key, where(body, blk), "both directions get the same key (`%s`): a record sent by one side is a valid record for that same side at the same index (an on-path attacker reflects it and it is delivered as a message from the peer), and equal plaintexts at equal indexes give identical bytes" % pa[-80:])
                else:
                    r.ok(cfg, key, where(body, blk), "rx <- %s, tx <- %s" % (pa[-40:], pb[-40:]))
        if cfg in ("full-linux", "full"):
            r.require(cfg, 2, "rx/tx key pairs in security::curve")


def run(chk):
    chk.undecided = ["confidentiality / integrity as cryptographic properties", "correctness of snow and dryoc (trusted)"]
    r1_no_truncation(chk)
    r2_data_phase_through_framer(chk)
    r3_nonce(chk)
    r4_decrypt_propagates(chk)
    r5_session_keys(chk)
    r6_priority_only_when_passthrough_now(chk)
    r7_directional_keys(chk)
