"""Fact extraction (runs the rustc_private driver over /repo) and loading.

Every check calls `load(config)`.  The extraction inputs (all sources of the
`rzmq` crate, the manifests, the lock file, the driver binary, the flags) are
hashed on every call; facts are re-extracted whenever the hash changes, so an
edited /repo is always re-analysed and an unedited one is not re-compiled by
every one of the twenty checks.  Fail closed: a missing / truncated fact file
is an error, never "nothing to report".
"""
import fcntl
import hashlib
import json
import os
import pickle
import shutil
import subprocess
import sys
import time

VERIF = os.path.dirname(os.path.dirname(os.path.abspath(__file__)))
REPO = os.environ.get("VERIF_REPO", "/repo")
CACHE = os.environ.get("VERIF_CACHE") or os.path.join(VERIF, ".cache")
DRIVER_DIR = os.path.join(VERIF, "driver")
DRIVER = os.path.join(DRIVER_DIR, "target", "release", "rzmq-facts-driver")

CONFIGS = {
    "default": [],
    "full-linux": ["--features", "full-linux"],
    "noplain": ["--no-default-features", "--features", "ipc,inproc"],
    "full": ["--features", "full"],
}
QUICK_CONFIGS = ["default", "full-linux"]
THOROUGH_CONFIGS = ["default", "full-linux", "noplain", "full"]

# Bodies counted on the pinned tree per configuration (fail-closed floors: the
# extractor must see at least 90 % of this many bodies).
BODY_FLOOR = {"default": 2038, "full-linux": 2703, "noplain": 1996, "full": 2153}


class FactsError(Exception):
    pass


def _env():
    env = dict(os.environ)
    env["CARGO_NET_OFFLINE"] = "true"
    env["CARGO_INCREMENTAL"] = "0"
    env.pop("RUSTC_WRAPPER", None)
    return env


def nightly_sysroot():
    out = subprocess.run(["rustc", "+nightly", "--print", "sysroot"], capture_output=True, text=True, env=_env())
    if out.returncode != 0:
        raise FactsError("nightly toolchain not available: " + out.stderr)
    return out.stdout.strip()


def build_driver(verbose=False):
    r = subprocess.run(["cargo", "+nightly", "build", "--release", "--offline"], cwd=DRIVER_DIR, capture_output=True, text=True, env=_env())
    if r.returncode != 0 or not os.path.exists(DRIVER):
        raise FactsError("driver build failed:\n" + r.stdout + r.stderr)
    if verbose:
        print("driver built:", DRIVER)


def _input_hash(repo, config):
    h = hashlib.sha256()
    h.update(config.encode())
    h.update(" ".join(CONFIGS[config]).encode())
    files = []
    for root in ("core/src",):
        for dp, dn, fn in os.walk(os.path.join(repo, root)):
            dn.sort()
            for f in sorted(fn):
                if f.endswith(".rs"):
                    files.append(os.path.join(dp, f))
    for f in ("core/Cargo.toml", "Cargo.toml", "Cargo.lock", "core/build.rs"):
        p = os.path.join(repo, f)
        if os.path.exists(p):
            files.append(p)
    files.append(DRIVER)
    for p in files:
        h.update(p.encode())
        with open(p, "rb") as fh:
            h.update(hashlib.sha256(fh.read()).digest())
    return h.hexdigest()


def extract(config, repo=REPO, target_dir=None, out=None, quiet=True):
    """Run the driver over `repo` for `config`; returns path of the fact file."""
    if not os.path.exists(DRIVER):
        build_driver()
    os.makedirs(os.path.join(CACHE, "facts"), exist_ok=True)
    target_dir = target_dir or os.path.join(CACHE, "target-" + config)
    out = out or os.path.join(CACHE, "facts", config + ".jsonl")
    # cargo's freshness cache would skip the wrapper: drop rzmq's fingerprints.
    fp = os.path.join(target_dir, "debug", ".fingerprint")
    if os.path.isdir(fp):
        for d in os.listdir(fp):
            if d.startswith("rzmq-"):
                shutil.rmtree(os.path.join(fp, d), ignore_errors=True)
    inc = os.path.join(target_dir, "debug", "incremental")
    if os.path.isdir(inc):
        shutil.rmtree(inc, ignore_errors=True)
    if os.path.exists(out):
        os.remove(out)
    env = _env()
    env["LD_LIBRARY_PATH"] = os.path.join(nightly_sysroot(), "lib") + ":" + env.get("LD_LIBRARY_PATH", "")
    env["RUSTFLAGS"] = "-Awarnings"
    env["RUSTC_WORKSPACE_WRAPPER"] = DRIVER
    env["VERIF_FACTS_OUT"] = out
    env["VERIF_FACTS_CRATE"] = "rzmq"
    env["CARGO_TARGET_DIR"] = target_dir
    cmd = ["cargo", "+nightly", "check", "-p", "rzmq", "--lib", "--offline"] + CONFIGS[config]
    t0 = time.time()
    r = subprocess.run(cmd, cwd=repo, capture_output=True, text=True, env=env)
    if r.returncode != 0:
        raise FactsError("extraction build failed for config %s (does /repo still compile?):\n%s" % (config, r.stderr[-6000:]))
    if not os.path.exists(out):
        raise FactsError("driver did not write %s (cargo replayed a cached unit?)" % out)
    with open(out, "rb") as fh:
        fh.seek(max(0, os.path.getsize(out) - 400))
        tail = fh.read().decode("utf-8", "replace").strip().splitlines()[-1]
    try:
        tr = json.loads(tail)
    except Exception:
        raise FactsError("fact file %s has no trailer" % out)
    if tr.get("k") != "trailer":
        raise FactsError("fact file %s has no trailer" % out)
    if not quiet:
        print("extracted %s: %d bodies in %.1fs" % (config, tr["bodies"], time.time() - t0))
    return out


class Facts:
    def __init__(self, config, records):
        self.config = config
        self.bodies = {}
        self.adts = {}
        self.impls = []
        self.consts = {}
        self.fns = {}
        self.traits = {}
        self.trailer = None
        for r in records:
            k = r["k"]
            if k == "body":
                self.bodies[r["path"]] = r
            elif k == "adt":
                self.adts[r["path"]] = r
            elif k == "impl":
                self.impls.append(r)
            elif k == "const":
                self.consts[r["path"]] = r
            elif k == "fn":
                self.fns[r["path"]] = r
            elif k == "trait":
                self.traits[r["path"]] = r
            elif k == "trailer":
                self.trailer = r
        if self.trailer is None:
            raise FactsError("no trailer in facts for " + config)
        if self.trailer["bodies"] != len(self.bodies):
            # duplicates would collapse in the dict; tolerate but record.
            pass
        floor = BODY_FLOOR.get(config, 0)
        if len(self.bodies) < floor * 0.9:
            raise FactsError("only %d bodies extracted for %s (floor %d): analysis would be vacuous" % (len(self.bodies), config, floor))


_loaded = {}


def load(config, repo=REPO, use_cache=True, quiet=True):
    """Facts for `config` of the current working tree of `repo`."""
    key = (config, repo)
    if key in _loaded:
        return _loaded[key]
    os.makedirs(os.path.join(CACHE, "facts"), exist_ok=True)
    lock_path = os.path.join(CACHE, "facts", config + ".lock")
    with open(lock_path, "w") as lock:
        fcntl.flock(lock, fcntl.LOCK_EX)
        if not os.path.exists(DRIVER):
            build_driver()
        h = _input_hash(repo, config)
        out = os.path.join(CACHE, "facts", config + ".jsonl")
        stamp = os.path.join(CACHE, "facts", config + ".hash")
        pk = os.path.join(CACHE, "facts", config + ".pickle")
        fresh = False
        if use_cache and os.path.exists(out) and os.path.exists(stamp) and open(stamp).read().strip() == h:
            fresh = True
        if not fresh:
            if os.path.exists(stamp):
                os.remove(stamp)
            if os.path.exists(pk):
                os.remove(pk)
            extract(config, repo=repo, out=out, quiet=quiet)
            with open(stamp, "w") as fh:
                fh.write(h)
        recs = None
        if os.path.exists(pk):
            try:
                with open(pk, "rb") as fh:
                    ph, recs = pickle.load(fh)
                if ph != h:
                    recs = None
            except Exception:
                recs = None
        if recs is None:
            with open(out) as fh:
                recs = [json.loads(l) for l in fh if l.strip()]
            try:
                with open(pk + ".tmp", "wb") as fh:
                    pickle.dump((h, recs), fh, protocol=pickle.HIGHEST_PROTOCOL)
                os.replace(pk + ".tmp", pk)
            except Exception:
                pass
        fcntl.flock(lock, fcntl.LOCK_UN)
    f = Facts(config, recs)
    f.input_hash = h
    _loaded[key] = f
    return f


def load_from_file(config, path):
    with open(path) as fh:
        recs = [json.loads(l) for l in fh if l.strip()]
    return Facts(config, recs)
