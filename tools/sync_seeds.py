#!/usr/bin/env python3
"""For every stored seeded change (/verif/seeded/<id>/meta.json): make sure a self-test case exists that applies the
patch to a scratch copy and expects the recorded rule to fire; regenerate the table of DESIGN.md section 0.7."""
import json, os, re
V = os.path.dirname(os.path.dirname(os.path.abspath(__file__)))
rows = []
for sid in sorted(os.listdir(os.path.join(V, "seeded"))):
    mp = os.path.join(V, "seeded", sid, "meta.json")
    if not os.path.exists(mp):
        continue
    m = json.load(open(mp))
    fired = m.get("checks_fired", {})
    for prop, keys in fired.items():
        keys = [k for k in keys if not k.startswith("ERROR")]
        if not keys:
            continue
        key = keys[0].split(": ", 1)[-1]
        sp = os.path.join(V, "selftest", prop + ".json")
        cases = json.load(open(sp)) if os.path.exists(sp) else []
        name = "seed-" + sid
        case = {"name": name, "kind": "violation", "edits": [{"patch": "seeded/%s/patch.diff" % sid}], "expect_key": key}
        cases = [c for c in cases if c["name"] != name] + [case]
        json.dump(cases, open(sp, "w"), indent=1)
    rules = "; ".join("%s %s" % (p, ",".join(sorted(set(k.split("|")[1] for k in ks if "|" in k)))) for p, ks in sorted(fired.items())) or "— (missed)"
    rows.append("| %s | %s | %s | %s | %s |" % (sid, (m.get("summary") or "").replace("|", "/")[:260], (m.get("needs_to_manifest") or "").replace("|", "/")[:200], rules, m.get("history", "")))
table = "| seed | change | needs, to manifest | caught by | note |\n|---|---|---|---|---|\n" + "\n".join(rows)
dp = os.path.join(V, "DESIGN.md")
s = open(dp).read()
a, b = "<!-- SEEDS-BEGIN -->", "<!-- SEEDS-END -->"
if a in s and b in s:
    s = s[: s.index(a) + len(a)] + "\n" + table + "\n" + s[s.index(b):]
    open(dp, "w").write(s)
print(table)
