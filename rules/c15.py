"""C15 — LINGER governs what happens to accepted messages at close.

Decides: whether the session's graceful-shutdown path drains what it has buffered before it shuts
the write half, and the shape of the linger deadline.  Not: how many messages arrive; wall-clock bounds."""
import re

from vlib import mir
from vlib.mir import strip_generics
from vlib.util import where, short, is_plumbing


def r1_flush_before_close(chk):
    r = chk.rule("R1", "the session flushes its buffers before a graceful close", "T4 must-pass-through",
                 "on the graceful path (ShuttingDownStream) every path from the end of the operational loop to write_half.shutdown() passes through a drain of the session's egress buffers (egress_buffer / pending_vectored / core_carryover)")
    for cfg, prog in chk.configs():
        run = prog.body("sessionx::actor::SessionConnectionActorX::run_loop::{closure#0}")
        pgs = prog.body("sessionx::actor::SessionConnectionActorX::perform_graceful_shutdown::{closure#0}")
        if run is None or pgs is None:
            r.bad(cfg, "anchor|run_loop/perform_graceful_shutdown", "-", "not found")
            continue
        # drains: EgressDriver / write_all / write_owned / flush of egress_buffer outside the operational select loop
        sel_loops = [lb for h, lb in run.loops() if any(s.out_switch in lb for s in run.selects)]
        in_op_loop = set().union(*sel_loops) if sel_loops else set()
        calls_pgs = [c for c in run.calls if c.matches(r"perform_graceful_shutdown$")]
        drains = []
        for body, scope in ((run, [b for b in run.live_blocks() if b not in in_op_loop]), (pgs, list(pgs.live_blocks()))):
            for c in body.calls:
                if c.blk not in scope or is_plumbing(c.t):
                    continue
                if c.matches(r"EgressDriver::new$|write_all$|write_vectored$|write_owned$|AsyncWriteExt::flush$|EgressBuffer::(advance|current_slice|fill_slices)$"):
                    drains.append((body, c))
        shut = [c for c in pgs.calls if c.name == "shutdown" and "write_half" in pgs.provenance(c.args[0])]
        key = "graceful close|drain before write_half.shutdown()"
        if not shut:
            r.bad(cfg, key, where(pgs, 0), "write_half.shutdown() not found on the graceful path")
        else:
            pre = [c for b, c in drains if b is pgs and pgs.dominates(c.blk, shut[0].blk)] + [c for b, c in drains if b is run and calls_pgs and run.dominates(c.blk, calls_pgs[0].blk)]
            if pre:
                r.ok(cfg, key, where(pgs, shut[0].blk), "drained by %s" % pre[0].callee)
            else:
                r.bad(cfg, key, where(pgs, shut[0].blk), "the session shuts its write half without writing out egress_buffer / pending_vectored / core_carryover (after the operational loop they are only mentioned by diagnostics): messages send() accepted before close() are discarded whatever LINGER is")
        # the linger predicate only looks at the core->session pipes
        lp = next((x for x in prog.bodies.values() if x.impl_self == "socket::core::state::ShutdownCoordinator" and x.name == "is_linger_expired_or_queues_empty" and x.kind != "closure"), None)
        if lp is not None:
            looks = sorted(set(m for c in lp.calls for m in re.findall(r"\.(pipes_tx|endpoints|sessions)\b", lp.provenance(c.args[0]) if c.args else "")))
            r.note("%s: linger predicate inspects %s" % (cfg, looks))
        r.require(cfg, 1, "graceful close path")


def r2_deadline_shape(chk):
    r = chk.rule("R2", "linger deadline shape", "T3/T9",
                 "LINGER None -> no deadline; zero -> now; d -> now + d; the predicate fires on now >= deadline")
    for cfg, prog in chk.configs():
        bs = [x for x in prog.bodies.values() if x.impl_self == "socket::core::state::ShutdownCoordinator" and x.kind != "closure"]
        b = next((x for x in bs if x.name == "start_linger_if_needed"), None)
        p = next((x for x in bs if x.name == "is_linger_expired_or_queues_empty"), None)
        if b is None or p is None:
            r.bad(cfg, "anchor|ShutdownCoordinator", "-", "not found")
            continue
        stores = [(blk, st) for blk, i, st in b.statements() if st["k"] == "assign" and st["p"]["pr"] and st["p"]["pr"][-1][0] == "field" and st["p"]["pr"][-1][2] == "linger_deadline"]
        kinds = {}
        for blk, st in stores:
            pv = b.provenance(st["r"]["o"]) if st["r"]["k"] == "use" else ""
            org = b.value_origin(st["r"]["o"]) if st["r"]["k"] == "use" else ("other",)
            if org[0] == "agg" and org[1]["r"].get("variant") == "None":
                kinds["none"] = blk
            elif org[0] == "agg" and org[1]["r"].get("variant") == "Some":
                inner = b.provenance_all(org[1]["r"]["ops"][0])
                if "Add" in inner or "::add(" in inner:
                    kinds["now+d"] = blk
                elif "Instant::now" in inner:
                    kinds["now"] = blk
        for k2, want in (("none", "LINGER -1 -> no deadline"), ("now", "LINGER 0 -> deadline now"), ("now+d", "LINGER d -> now + d")):
            (r.ok if k2 in kinds else r.bad)(cfg, "start_linger_if_needed|%s" % want, where(b, kinds.get(k2, 0)), *([] if k2 in kinds else ["case missing: " + want]))
        # zero case guarded by is_zero
        if "now" in kinds:
            ok = any(g.atom[0] == "call" and g.atom[1].name == "is_zero" and g.truth is True for g in b.guards(kinds["now"], select_aware=False))
            (r.ok if ok else r.bad)(cfg, "start_linger_if_needed|`now` only for zero LINGER", where(b, kinds["now"]), *([] if ok else ["the immediate deadline is not restricted to LINGER == 0"]))
        ge = [c for c in p.calls if c.name in ("ge", "gt") and "Instant::now" in p.provenance_all(c.args[0]) and "deadline" in p.provenance_all(c.args[1])]
        (r.ok if ge and ge[0].name == "ge" else r.bad)(cfg, "is_linger_expired_or_queues_empty|now >= deadline", where(p, ge[0].blk if ge else 0), *([] if ge and ge[0].name == "ge" else ["the expiry test is not `Instant::now() >= deadline`"]))
        r.require(cfg, 5, "linger obligations")


def run(chk):
    chk.undecided = ["how many accepted messages arrive for a given LINGER", "wall-clock bound of close()/term()"]
    r1_flush_before_close(chk)
    r2_deadline_shape(chk)
