"""C02 — multipart messages stay whole, contiguous and correctly flagged."""
import re

from vlib import mir
from vlib.mir import strip_generics
from vlib.util import where, short, is_plumbing

STASH_TY = r"Mutex<.*Option<std::collections::VecDeque<message::msg::Msg>>>"


def stash_fields(prog):
    out = {}
    for path, a in prog.facts.adts.items():
        for v in a["variants"]:
            for f in v["fields"]:
                if re.search(STASH_TY, f["ty"]):
                    out[(path, f["name"])] = f["ty"]
    return out


def stash_writes(body, names):
    """[(blk, field, how)] writes through `self.<field>.lock()`"""
    out = []
    rx = re.compile(r"Mutex::lock\(self\.(%s)\)" % "|".join(map(re.escape, names)))
    for b, i, st in body.statements():
        if st["k"] != "assign" or not st["p"]["pr"]:
            continue
        if st["p"]["pr"][-1][0] not in ("deref",):
            continue
        pp = body.place_path(st["p"])
        m = rx.search(pp)
        if m and not re.search(r"@Some", pp):
            out.append((b, m.group(1), "assignment"))
    for c in body.calls:
        if c.name in ("take", "replace", "insert", "get_or_insert_with") and c.args:
            pp = c.recv() or ""
            m = rx.search(pp)
            if m and "@Some" not in pp:
                out.append((c.blk, m.group(1), c.name))
    return out


def r1_who_clears_stash(chk):
    r = chk.rule("R1", "only recv/close may reset the partial-read stash", "T1 who-may-write",
                 "the stash holding the unread frames of a half-read multipart message is written only by the recv path that owns it and by close(); no attach/detach event may discard unread frames")
    allowed = {"recv", "recv_multipart", "close", "new", "drop"}
    for cfg, prog in chk.configs():
        fields = stash_fields(prog)
        names = sorted(set(n for _, n in fields))
        if len(fields) < 3:
            r.bad(cfg, "anchor|stash fields", "-", "expected 3 stash fields (AnonymousIngressEngine.local_cache, DealerSocket/RouterSocket.frame_recv_buffer), found %s" % sorted(fields))
            continue
        for body in prog.bodies.values():
            if "::tests" in body.path or not body.impl_self:
                continue
            owner = strip_generics(body.impl_self)
            mine = [n for (adt, n) in fields if adt == owner]
            if not mine:
                continue
            for blk, field, how in stash_writes(body, mine):
                fn = body.name or "?"
                key = "%s|writes %s" % (short(body.root), field)
                if fn in allowed:
                    r.ok(cfg, key, where(body, blk), "%s in %s()" % (how, fn))
                else:
                    r.bad(cfg, key, where(body, blk), "`%s()` resets the partial-read stash `%s`: frames of a half-read multipart message (possibly from another, still connected peer) are discarded and the next recv() starts a different message after a frame that said MORE" % (fn, field))
        r.require(cfg, 8, "stash writes in recv/close paths")


def _flag_ops(prog, body, depth=2, seen=None):
    """does this body (or local callees up to depth) both set and clear MsgFlags::MORE through set_flags?"""
    seen = seen or set()
    sets = clears = False
    if body is None or body.path in seen:
        return False, False
    seen.add(body.path)
    has_set_flags = any(c.matches(r"message::msg::Msg::set_flags$") for c in body.calls)
    if has_set_flags:
        for c in body.calls:
            if not (c.trait in ("std::ops::BitOr", "std::ops::BitAnd") and "message::flags" in c.callee):
                continue
            args = " ".join(body.provenance(a) + " " + a.get("item", "") for a in c.args)
            if c.name == "bitor" and "MsgFlags>::MORE" in args and body.loops_containing(c.blk):
                # per-frame normalisation: the OR happens inside the loop over the frames
                sets = True
            if c.name == "bitand" and "not(" in args:
                # the complemented operand must be MORE
                for n in body.calls:
                    if not body.loops_containing(c.blk):
                        break
                    if n.name == "not" and "message::flags" in n.callee and any("MsgFlags>::MORE" in (a.get("item") or "") for a in n.args) and n.dest["l"] in [a["p"]["l"] for a in c.args if a["c"] in ("copy", "move")]:
                        clears = True
    if depth > 0:
        for c in body.calls:
            for t in prog.callees_of_call(c):
                if "socket::" in t or "patterns::" in t:
                    s2, c2 = _flag_ops(prog, prog.body(t), depth - 1, seen)
                    sets, clears = sets or s2, clears or c2
        for _, _, st in body.aggregates():
            if st["r"].get("ak") in ("closure", "coroutine"):
                s2, c2 = _flag_ops(prog, prog.body(strip_generics(st["r"]["def"])), depth, seen)
                sets, clears = sets or s2, clears or c2
    return sets, clears


def _forwards(prog, body, depth=3, seen=None):
    """does send_multipart hand frames to a connection / router / distributor?"""
    seen = seen or set()
    if body is None or body.path in seen:
        return False
    seen.add(body.path)
    for c in body.calls:
        if c.matches(r"ISocketConnection::send_multipart|route_message$|send_to_all_multipart$|send_multipart_owned|send_with_timeout$|try_send_multipart"):
            return True
    if depth > 0:
        for c in body.calls:
            for t in prog.callees_of_call(c):
                if ("socket::" in t) and _forwards(prog, prog.body(t), depth - 1, seen):
                    return True
        for _, _, st in body.aggregates():
            if st["r"].get("ak") in ("closure", "coroutine") and _forwards(prog, prog.body(strip_generics(st["r"]["def"])), depth, seen):
                return True
    return False


def r2_more_normalisation(chk):
    r = chk.rule("R2", "every send_multipart normalises MORE flags", "T2 sibling agreement",
                 "each ISocket::send_multipart that forwards user frames sets MORE on all but the last frame and clears it on the last, inside a loop over the frames (in its body or a local callee)")
    for cfg, prog in chk.configs():
        for body in prog.bodies.values():
            if body.impl_trait != "socket::ISocket" or body.name != "send_multipart" or body.kind.startswith("coroutine") or body.kind == "closure":
                continue
            sock = short(body.impl_self or "?")
            key = "%s::send_multipart|MORE normalised" % sock
            if not _forwards(prog, body):
                r.note("%s: %s does not forward frames (returns an error) - no obligation" % (cfg, sock))
                continue
            sets, clears = _flag_ops(prog, body, depth=2)
            if sets and clears:
                r.ok(cfg, key, where(body, 0), "sets MORE on non-last frames and clears it on the last")
            else:
                r.bad(cfg, key, where(body, 0), "forwards user frames but %s: frames passed without pre-set MORE flags go out as separate messages (sibling sockets normalise)" % ("never sets MORE on intermediate frames" if not sets else "never clears MORE on the last frame"))
        r.require(cfg, 5, "send_multipart implementations that forward frames (PUSH, PUB, DEALER, REP, ROUTER)")


# ----------------------------------------------------------------------------
# R3: the 255-frame container is never overfilled on the socket side
# ----------------------------------------------------------------------------
GROW = re.compile(r"FrameBatch::(push|insert)$|FrameBatch as std::iter::Extend<.*>>::extend$|FrameBatch as std::convert::From<.*>>::from$")
SOCKET_SIDE = re.compile(r"core/src/socket/")
# predicates whose value does not change between two evaluations inside one API call (trusted, listed in the evidence)
STABLE_PREDICATES = {"socket::patterns::framing::FramingLatch::is_manual": "the framing mode is read from an atomic latch that user code flips only through set_option, not during a send/recv call of the same task"}
# growth that re-packages frames which already sit in ONE FrameBatch (<= 255 by the container's own invariant): the sum cannot grow
R3_JUSTIFIED = {
    "rep_socket::RepSocket::extract_routing_prefix|push|routing_prefix": "partitions one received batch into prefix and payload: every pushed frame was popped from that batch",
    "rep_socket::RepSocket::extract_routing_prefix|push|payload_frames": "partitions one received batch into prefix and payload: every pushed frame was popped from that batch",
    "anonymous_ingress::AnonymousIngressEngine::recv_multipart::{closure#0}|push|new": "re-assembles the unread tail of ONE batch from the frame stash",
}


R3_CHAIN_JUSTIFIED = {
    ("<DefaultRouterStrategy as RouterSendStrategy>::prepare_wire_frames|insert|payload_frames", "<RouterSocket as ISocket>::send_multipart"):
        {"needs": "removal-dominates-strategy-call", "reason": "manual framing (auto framing takes the capacity comparison): send_multipart removes the identity frame from the batch before the strategy puts one frame back"},
    ("<ReqPeerStrategy as RouterSendStrategy>::prepare_wire_frames|push|payload_frames", "<RouterSocket as ISocket>::send_multipart"):
        {"needs": "removal-dominates-strategy-call", "reason": "manual framing: the identity frame was removed from the batch before the strategy builds delimiter + payload"},
    ("<ReqPeerStrategy as RouterSendStrategy>::prepare_wire_frames|extend|payload_frames", "<RouterSocket as ISocket>::send_multipart"):
        {"needs": "removal-dominates-strategy-call", "reason": "manual framing: the identity frame was removed from the batch before the strategy builds delimiter + payload"},
    ("<DealerSocket as ISocket>::send::{closure#0}|push|parts#1", "<DealerSocket as ISocket>::send"):
        {"needs": "proved:<DealerSocket as ISocket>::send::{closure#0}|push|parts", "reason": "the transaction buffer is filled only by the MORE branch of this function, behind `parts.len() >= MAX_DEALER_SEND_BUFFER_PARTS -> Err` (MAX_FRAMES - 2): final frame and delimiter still fit"},
    ("patterns::framing::dealer_auto_encode|insert|frames", "<DealerSocket as ISocket>::send"):
        {"needs": "proved:<DealerSocket as ISocket>::send::{closure#0}|push|parts", "reason": "same invariant of the transaction buffer (MAX_FRAMES - 2 buffered frames + final frame + delimiter)"},
}


def _cap_value(prog, body, o):
    """integer a comparison operand evaluates to (literal, constant arithmetic, or a named const item), else None"""
    v = body.const_int(o)
    if v is not None:
        return v
    pv = body.provenance(o)
    m = re.match(r"^const:([\w:<>]+)$", pv)
    if m:
        return prog.const_int(m.group(1)) if prog.const_int(m.group(1)) is not None else (255 if m.group(1).endswith("MAX_FRAMES") else None)
    return None


def _ok_edges(prog, body, checking):
    """set of (switch_block, label): edges on which a frame count was just compared with the container capacity and found to fit,
    or on which a *checking function* (all of whose Ok returns lie behind such an edge) returned Ok"""
    out = set()
    for s in range(body.n):
        t = body.term(s)
        if t["k"] != "switch" or body.blocks[s]["cleanup"]:
            continue
        a, pol = body.switch_atom(s)
        if a[0] == "cmp" and t.get("dty") == "bool":
            x, y = body.provenance(a[2]), body.provenance(a[3])
            cx, cy = _cap_value(prog, body, a[2]), _cap_value(prog, body, a[3])
            op = a[1]
            LEN = r"message::FrameBatch::len\(|std::vec::Vec::len\("
            if re.search(LEN, y) and cx is not None and not re.search(LEN, x):
                x, y, cx, cy = y, x, cy, cx
                op = {"Lt": "Gt", "Le": "Ge", "Gt": "Lt", "Ge": "Le", "Eq": "Eq", "Ne": "Ne"}[op]
            if not (re.search(LEN, x) and cy is not None and 1 <= cy <= 255):
                continue
            labels = [v for v, _ in t["targets"]] + ["otherwise"]
            for lab in labels:
                g = mir.Guard(body, s, lab)
                if g.truth is None:
                    continue
                op2 = op if g.truth else {"Lt": "Ge", "Le": "Gt", "Gt": "Le", "Ge": "Lt", "Eq": "Ne", "Ne": "Eq"}[op]
                if op2 in ("Lt", "Le"):
                    out.add((s, lab))
        elif a[0] == "discr":
            # switch on the result of a checking function (directly, or through `?` = Try::branch)
            org = body.value_origin({"c": "copy", "p": a[3]}) if not a[3]["pr"] else ("place", a[3])
            call = org[1] if org[0] == "call" else None
            if call is not None and call.declared.endswith("ops::Try::branch") and call.args:
                o2 = body.value_origin(call.args[0])
                call = o2[1] if o2[0] == "call" else None
            if call is not None and call.callee in checking:
                out.add((s, 0))  # Ok / Continue
    return out


def _latch_summary_holds(prog):
    """Verify on MIR the facts behind the trusted summary `is_manual() == true  =>  FramingLatch::encode/decode call noop`:
    is_manual is `mode.load() == 1`; encode/decode call `table[mode.load() & 1]`; both tables are built as [auto, noop]; noop does nothing."""
    why = []
    im = prog.body("socket::patterns::framing::FramingLatch::is_manual")
    ok = im is not None
    if ok:
        ret = [st for _, _, st in im.statements() if st["k"] == "assign" and st["p"]["l"] == 0 and not st["p"]["pr"]]
        ok = len(ret) == 1 and ret[0]["r"]["k"] == "binop" and ret[0]["r"]["op"] == "Eq" and \
            "load(self.mode)" in im.provenance(ret[0]["r"]["a"]) and im.const_int(ret[0]["r"]["b"]) == 1
    if not ok:
        why.append("is_manual is not `mode.load() == 1`")
    for nm, tbl in (("encode", "encoders"), ("decode", "decoders")):
        f = prog.body("socket::patterns::framing::FramingLatch::" + nm)
        good = False
        if f is not None:
            ind = [c for c in f.calls if c.kind != "def"]
            if len(ind) == 1 and len(f.calls) == 2:
                fo = ind[0].t["f"].get("o")
                pv = f.provenance(fo) if fo else ""
                # the callee operand is self.<tbl>[idx]; idx = load(self.mode) & 1
                good = pv.startswith("self.%s[]" % tbl)
                idxs = [st for _, _, st in f.statements() if st["k"] == "assign" and st["r"]["k"] == "binop" and st["r"]["op"] == "BitAnd"]
                good = good and len(idxs) == 1 and "load(self.mode)" in f.provenance(idxs[0]["r"]["a"]) and f.const_int(idxs[0]["r"]["b"]) == 1
        if not good:
            why.append("%s is not `self.%s[mode.load() & 1](frames)`" % (nm, tbl))
    nw = prog.body("socket::patterns::framing::FramingLatch::new")
    good = False
    if nw is not None:
        arrs = [st for _, _, st in nw.aggregates() if st["r"].get("ak") == "array"]
        good = len(arrs) == 2
        for st in arrs:
            ops = st["r"]["ops"]
            org = nw.value_origin(ops[1]) if len(ops) == 2 else ("?",)
            o = org[1]["o"] if org[0] == "other" and org[1].get("k") == "cast" else (org[1] if org[0] == "const" else None)
            good = good and len(ops) == 2 and o is not None and "fn" in o and strip_generics(o["fn"]["path"]).endswith("framing::noop")
    if not good:
        why.append("new() does not build both tables as [auto, noop]")
    np_ = prog.body("socket::patterns::framing::noop")
    if np_ is None or np_.calls or np_.n != 1:
        why.append("noop is not empty")
    return (not why), why


def _discr_key(body, a):
    """canonical key of a discriminant switch atom: the place read; `mem::replace(P, ..)` reads the old value of P"""
    path = body.provenance({"c": "copy", "p": a[3]})
    m = re.match(r"^std::mem::(?:replace|take)\((.*)\)$", path)
    if m:
        return "old(%s)" % m.group(1)
    return path


def _latch_tables(prog):
    """socket type -> (encoder, decoder) handed to FramingLatch::new in that type's own code"""
    out = {}
    for b in prog.bodies.values():
        if not b.impl_self:
            continue
        for c in b.calls:
            if c.callee.endswith("framing::FramingLatch::new") and len(c.args) == 2:
                fns = []
                for a in c.args:
                    org = b.value_origin(a)
                    o = org[1] if org[0] == "const" else None
                    if o is None and org[0] == "other" and org[1].get("k") == "cast":
                        o = org[1]["o"]
                    fns.append(strip_generics((o["fn"].get("res") or o["fn"]["path"])) if o and "fn" in o else None)
                if all(fns):
                    out[b.impl_self] = tuple(fns)
    return out


def _mentions(text, names):
    return any(re.search(r"(?<![\w.])%s\b" % re.escape(n), text) for n in names)


def _unbounded(body, o, tainted):
    """may this FrameBatch operand hold a frame count chosen by the user / accumulated in socket state?"""
    pv = body.provenance_all(o)
    if _mentions(pv, tainted):
        return True
    if re.search(r"Mutex::lock|RwLock::(read|write)|std::mem::(replace|take)\(", pv):
        return True
    return False


def _explore(prog, sp_of, open_sites, checking, latch_ok, entry, okcache, ctcache, latch_tables=None):
    """open growth sites reachable from `entry` without taking a fitting edge.  Path conditions that are kept consistent:
    the stable predicates (FramingLatch::is_manual, handed down into callees: one latch per socket) and, inside one body,
    the discriminant of a place that is tested twice (`if let V(..) = &*g` followed by `match mem::replace(&mut *g, ..)`)."""
    reached = set()
    seen_ctx = set()
    eb = sp_of.get(entry)
    table = (latch_tables or {}).get(eb.impl_self) if eb is not None else None
    names0, _ = eb.names if eb is not None else ({}, None)
    t0 = frozenset(names0.get(i, "_%d" % i) for i in range(1, (eb.rec.get("argc", 0) if eb is not None else 0) + 1)
                   if eb is not None and re.search(r"message::FrameBatch|Vec<message::msg::Msg", eb.locals[i]))
    work = [(entry, frozenset(), t0)]
    while work:
        sp, asm0, tainted = work.pop()
        if (sp, asm0, tainted) in seen_ctx:
            continue
        seen_ctx.add((sp, asm0, tainted))
        b = sp_of.get(sp)
        if b is None:
            continue
        if sp not in okcache:
            okcache[sp] = _ok_edges(prog, b, checking)
            m = {}
            for c in b.calls:
                for t in prog.callees_of_call(c):
                    m.setdefault(c.blk, []).append((t, c))
            for blk, i, st in b.aggregates():
                if st["r"].get("ak") in ("closure", "coroutine", "coroutine_closure"):
                    m.setdefault(blk, []).append((strip_generics(st["r"]["def"]), None))
            ctcache[sp] = m
        ok_e, calls = okcache[sp], ctcache[sp]
        sites = {}
        for c, key in open_sites.get(sp, []):
            sites.setdefault(c.blk, []).append(key)
        replaces = {c.blk: b.provenance(c.args[0]) for c in b.calls if c.callee in ("std::mem::replace", "std::mem::take") and c.args}
        seen = set()
        stack = [(0, asm0)]
        while stack:
            blk, asm = stack.pop()
            if (blk, asm) in seen:
                continue
            seen.add((blk, asm))
            d = dict(asm)
            for key in sites.get(blk, []):
                c0 = next(c for c, k in open_sites[sp] if k == key)
                if not hasattr(c0, "args") or any(_unbounded(b, a, tainted) for a in c0.args[:2] if a["c"] in ("copy", "move")):
                    reached.add(key)
            for t, c in calls.get(blk, []):
                tb = sp_of.get(t)
                if tb is None:
                    continue
                if c is not None and c.kind != "def" and table and re.search(r"framing::FramingLatch::(encode|decode)$", sp):
                    if t != (table[0] if sp.endswith("encode") else table[1]):
                        continue  # this socket's latch was built with other functions
                if tb.impl_trait == "socket::ISocket" and tb.kind in ("fn", "assoc_fn") and t != entry:
                    continue  # an entry of its own: judged from its own start, without credit for the caller's checks
                if c is not None and latch_ok and d.get("is_manual") is True and re.search(r"framing::FramingLatch::(encode|decode)$", c.callee):
                    continue  # manual mode: the latch dispatches to noop (summary verified on MIR)
                # which of the callee's parameters / captures are unbounded
                tn, _ = tb.names
                if c is not None:
                    tt = frozenset(tn.get(j + 1, "_%d" % (j + 1)) for j, a in enumerate(c.args) if a["c"] in ("copy", "move") and _unbounded(b, a, tainted))
                else:
                    st_ = next(st for bb, i, st in b.aggregates() if bb == blk and st["r"].get("def") and strip_generics(st["r"]["def"]) == t)
                    caps = {}
                    for dbg in tb.rec.get("debug", []):
                        pr = dbg["p"]["pr"]
                        if dbg["p"]["l"] == 1 and pr and pr[0][0] == "field":
                            caps[pr[0][1]] = dbg["name"]
                    tt = frozenset(caps.get(j, "?") for j, a in enumerate(st_["r"]["ops"]) if a["c"] in ("copy", "move") and _unbounded(b, a, tainted))
                work.append((t, frozenset((k, v) for k, v in asm if k == "is_manual"), tt))
            if blk in replaces:
                k = ("discr", replaces[blk])
                if k in d:
                    d[("discr", "old(%s)" % replaces[blk])] = d.pop(k)
                    asm = frozenset(d.items())
            # booleans that were just assigned a constant on this path (`matches!`, `a && b`) steer the switch that tests them
            changed = False
            for st in b.blocks[blk]["st"]:
                if st["k"] != "assign" or st["p"]["pr"]:
                    continue
                l_ = ("loc", st["p"]["l"])
                rv = st["r"]
                if rv["k"] == "use" and rv["o"]["c"] == "const" and "int" in rv["o"]:
                    d[l_] = rv["o"]["int"]
                    changed = True
                elif rv["k"] == "use" and rv["o"]["c"] in ("copy", "move") and not rv["o"]["p"]["pr"] and ("loc", rv["o"]["p"]["l"]) in d:
                    d[l_] = d[("loc", rv["o"]["p"]["l"])]
                    changed = True
                elif l_ in d:
                    del d[l_]
                    changed = True
            t = b.term(blk)
            if t["k"] == "call" and not t["dest"]["pr"] and ("loc", t["dest"]["l"]) in d:
                del d[("loc", t["dest"]["l"])]
                changed = True
            if changed:
                asm = frozenset(d.items())
            if t["k"] == "switch" and t["d"]["c"] in ("copy", "move") and not t["d"]["p"]["pr"] and ("loc", t["d"]["p"]["l"]) in d:
                v = d[("loc", t["d"]["p"]["l"])]
                tgt, lab_ = t["otherwise"], "otherwise"
                for val, tb0 in t["targets"]:
                    if val == v:
                        tgt, lab_ = tb0, val
                if (blk, lab_) not in ok_e:
                    stack.append((tgt, asm))
                continue
            atom_key = None
            dkey = None
            if t["k"] == "switch":
                a, pol = b.switch_atom(blk)
                if a[0] == "call" and a[1].callee in STABLE_PREDICATES:
                    atom_key = a[1].name
                elif a[0] == "discr":
                    dkey = ("discr", _discr_key(b, a))
            listed = [v for v, _ in t["targets"]] if t["k"] == "switch" else []
            for tb_, lab in b.edges(blk):
                if (blk, lab) in ok_e:
                    continue
                asm2 = asm
                if atom_key is not None:
                    g = mir.Guard(b, blk, lab)
                    if g.truth is not None:
                        prev = d.get(atom_key)
                        if prev is not None and prev != g.truth:
                            continue
                        asm2 = frozenset(list(asm) + [(atom_key, g.truth)])
                elif dkey is not None:
                    prev = d.get(dkey)
                    cur = ("eq", lab) if lab != "otherwise" else ("ne", tuple(listed))
                    if prev is not None:
                        if prev[0] == "eq" and cur[0] == "eq" and prev[1] != cur[1]:
                            continue
                        if prev[0] == "eq" and cur[0] == "ne" and prev[1] in cur[1]:
                            continue
                        if prev[0] == "ne" and cur[0] == "eq" and cur[1] in prev[1]:
                            continue
                    if prev is None or (prev[0] == "ne" and cur[0] == "eq"):
                        d2 = dict(d)
                        d2[dkey] = cur
                        asm2 = frozenset(d2.items())
                stack.append((tb_, asm2))
    return reached


def r3_capacity(chk):
    r = chk.rule("R3", "the 255-frame container is never overfilled by socket code", "T8 growth census + T4 must-pass-through (interprocedural)",
                 "every FrameBatch growth (push / insert / extend / From<Vec>) in the socket layer is proved to fit locally, or every call chain from a public entry "
                 "(each ISocket method of each socket type, each Socket method) to it takes the fitting edge of a frame-count-vs-capacity comparison "
                 "(or the Ok edge of a function that makes that comparison), or it only re-packages frames of one existing batch (listed). "
                 "Decides that a capacity check exists on every chain - not its arithmetic.")
    from rules import c07
    for cfg, prog in chk.configs():
        bodies = [b for b in prog.bodies.values() if SOCKET_SIDE.search(b.file) and "::tests" not in b.path and "_tests::" not in b.path]
        sp_of = {strip_generics(b.path): b for b in bodies}
        latch_ok, why = _latch_summary_holds(prog)
        if latch_ok:
            r.ok(cfg, "FramingLatch|manual mode dispatches to noop", "core/src/socket/patterns/framing.rs", "is_manual == (mode == 1); encode/decode call table[mode & 1]; tables are [auto, noop]; noop is empty")
        else:
            r.note("%s: latch summary NOT applied (%s): manual-mode paths are treated like auto-mode paths" % (cfg, "; ".join(why)))
        # 1. growth sites not proved locally
        open_sites = {}
        all_keys = {}
        for b in bodies:
            n = {}
            for c in b.calls:
                if not (GROW.search(c.callee) or GROW.search(c.declared)):
                    continue
                base = b.provenance_u(c.args[0]) if c.args else ""
                ids = re.findall(r"[A-Za-z_][A-Za-z_0-9]*", re.sub(r"@\w+|\bconst\b", "", base or ""))
                k0 = "%s|%s|%s" % (short(b.path), c.name, ids[-1] if ids else "-")
                n[k0] = n.get(k0, 0) + 1
                key = k0 if n[k0] == 1 else "%s#%d" % (k0, n[k0] - 1)
                proof = c07.capacity_proved(b, c.blk, c)
                if proof:
                    r.ok(cfg, key, where(b, c.blk), "local: " + proof)
                elif k0 in R3_JUSTIFIED:
                    r.ok(cfg, key, where(b, c.blk), "listed: " + R3_JUSTIFIED[k0])
                else:
                    open_sites.setdefault(strip_generics(b.path), []).append((c, key))
                    all_keys[key] = (b, c)
        # 2. checking functions: every Ok return lies behind a fitting edge
        checking = set()
        for _ in range(3):
            for b in bodies:
                sp = strip_generics(b.path)
                if sp in checking or b.kind not in ("fn", "assoc_fn"):
                    continue
                oks = set(blk for blk, i, st in b.aggregates() if st["r"].get("variant") == "Ok" and st["r"].get("adt", "").endswith("result::Result"))
                if not oks:
                    continue
                ok_e = _ok_edges(prog, b, checking)
                if not ok_e:
                    continue
                probe = {sp: [(type("S", (), {"blk": blk})(), "ok@%d" % blk) for blk in oks]}
                if not _explore(prog, {sp: b}, probe, checking, latch_ok, sp, {}, {}):
                    checking.add(sp)
        r.note("%s: checking functions (return Ok only after a frame-count comparison): %s" % (cfg, ", ".join(sorted(short(x) for x in checking)) or "-"))
        # 3. forward exploration from every public entry
        entries = sorted(sp for sp, b in sp_of.items() if (b.impl_trait == "socket::ISocket" and b.kind in ("fn", "assoc_fn")) or (re.search(r"socket::types::Socket::\w+$", sp) and b.kind in ("fn", "assoc_fn")))
        reached = {}
        okcache, ctcache = {}, {}
        tables = _latch_tables(prog)
        for e in entries:
            for key in _explore(prog, sp_of, open_sites, checking, latch_ok, e, okcache, ctcache, tables):
                reached.setdefault(key, set()).add(short(e))
        # chains that are safe for a reason the path analysis cannot see: one (site, entry) pair per line, each with the
        # structural fact that has to keep holding
        for (k0, ent), j in R3_CHAIN_JUSTIFIED.items():
            if k0 not in reached or ent not in reached[k0]:
                continue
            holds = False
            if j["needs"] == "removal-dominates-strategy-call":
                eb = next((b for sp, b in sp_of.items() if short(sp) == ent + "::{closure#0}"), None)
                if eb is not None:
                    rem = [c for c in eb.calls if c.callee == "message::FrameBatch::remove"]
                    strat = [c for c in eb.calls if c.name == "prepare_wire_frames"]
                    holds = bool(strat) and all(any(eb.dominates(x.blk, y.blk) and eb.provenance(x.args[0]) in eb.provenance_all(y.args[2]) for x in rem) for y in strat)
            elif j["needs"].startswith("proved:"):
                holds = j["needs"][len("proved:"):] not in reached
            if holds:
                reached[k0].discard(ent)
                r.note("%s: %s from %s accepted: %s" % (cfg, k0, ent, j["reason"]))
                if not reached[k0]:
                    del reached[k0]
        r.note("%s: %d public entries explored, %d growth sites need an interprocedural argument" % (cfg, len(entries), len(all_keys)))
        for key, (b, c) in sorted(all_keys.items()):
            if key in reached:
                r.bad(cfg, key, where(b, c.blk), "FrameBatch::%s can be reached from %s without any comparison of the frame count with the container's capacity on the way (no fitting edge of a `len .. MAX_FRAMES` test, no Ok edge of a checking function): a message with too many frames panics in the caller's task instead of being refused with an error" % (c.name, ", ".join(sorted(reached[key]))[:240]))
            else:
                r.ok(cfg, key, where(b, c.blk), "every call chain from the public API takes the fitting edge of a frame-count comparison first")
        r.require(cfg, 25, "FrameBatch growth sites in the socket layer")


def r3b_sum_is_what_is_built(chk):
    r = chk.rule("R3b", "a batch concatenated from several batches is checked as a whole", "T9 agreement between the guarded sum and the built sum",
                 "where socket code concatenates two or more variable-length batches into one (extend, extend), the capacity comparison taken on the way compares the SUM of "
                 "exactly those batches' frame counts - a check of only one of them lets the concatenation overflow the container")
    from vlib.util import field_key
    for cfg, prog in chk.configs():
        n = 0
        for b in prog.bodies.values():
            if not SOCKET_SIDE.search(b.file) or "::tests" in b.path or "_tests::" in b.path:
                continue
            groups = {}
            for c in b.calls:
                if c.name == "extend" and (GROW.search(c.callee) or GROW.search(c.declared)) and len(c.args) >= 2:
                    a = c.args[1]
                    if a["c"] in ("copy", "move") and a["p"]["ty"].endswith("message::FrameBatch"):
                        groups.setdefault(b.provenance_u(c.args[0]), []).append(c)
            for base, cs in groups.items():
                if len(cs) < 2:
                    continue
                n += 1
                srcs = sorted(set(field_key(b.provenance(c.args[1])) for c in cs))
                key = "%s|concatenation of %s is checked as a sum" % (short(b.path), "+".join(srcs))
                best = None
                for (s_, lab) in _ok_edges(prog, b, set()):
                    a, _pol = b.switch_atom(s_)
                    if a[0] != "cmp":
                        continue
                    text = b.provenance(a[2]) + " " + b.provenance(a[3])
                    keys = set()
                    i = 0
                    for m in re.finditer(r"message::FrameBatch::len\(", text):
                        depth, j = 1, m.end()
                        while j < len(text) and depth:
                            depth += text[j] == "("
                            depth -= text[j] == ")"
                            j += 1
                        keys.add(field_key(text[m.end():j - 1]))
                    if set(srcs) <= keys:
                        best = (s_, keys)
                        break
                    if best is None or len(keys & set(srcs)) > len(best[1] & set(srcs)):
                        best = best if best and len(best[1] & set(srcs)) >= len(keys & set(srcs)) else (None, keys)
                if best and best[0] is not None:
                    r.ok(cfg, key, where(b, cs[0].blk), "capacity comparison at %s sums %s" % (b.term(best[0])["sp"].split("/")[-1], "+".join(sorted(best[1]))))
                else:
                    r.bad(cfg, key, where(b, cs[0].blk), "the batch is built from %s, but no capacity comparison in this function compares the sum of all of them with the container's capacity (closest check covers only: %s): a reply/message whose parts individually fit can overflow the 255-frame container and panic" % (" + ".join(srcs), ", ".join(sorted(best[1])) if best else "none"))
        r.require(cfg, 1, "multi-source concatenations")


def r4_only_complete_batches(chk):
    r = chk.rule("R4", "only complete batches are delivered", "T3 guarded-by",
                 "the engine emits DeliverMessage only for a frame without MORE and hands over the accumulated batch with mem::replace")
    for cfg, prog in chk.configs():
        for body in prog.bodies.values():
            if body.impl_self != "protocol::zmtp::engine::ZmtpEngine" or body.name != "process_data":
                continue
            for b, i, st in body.aggregates():
                if st["r"].get("variant") == "DeliverMessage" and st["r"].get("adt", "").endswith("AppAction"):
                    key = "%s|DeliverMessage only when !is_more" % short(body.path)
                    g_ok = False
                    for g in body.guards(b, select_aware=False):
                        if g.atom[0] == "call" and g.atom[1].matches(r"Msg::is_more$") and g.truth is False:
                            g_ok = True
                        if g.atom[0] == "place" and g.truth is False and "is_more" in g.atom[1]:
                            g_ok = True
                    prov = body.provenance(st["r"]["ops"][0])
                    repl = "std::mem::replace(self.partial_batch)" in prov
                    if g_ok and repl:
                        r.ok(cfg, key, where(body, b), "guarded by is_more == false; payload = mem::replace(&mut self.partial_batch, ..)")
                    else:
                        r.bad(cfg, key, where(body, b), "DeliverMessage is emitted %s: a partial (or stale) multipart message could reach the application" % ("without the !is_more guard" if not g_ok else "with a payload that is not the replaced partial_batch (%s)" % prov[:80]))
        r.require(cfg, 1, "DeliverMessage construction in process_data")


def r5_recv_keeps_tail(chk):
    r = chk.rule("R5", "frame-by-frame recv() keeps the unread frames", "T5 payload consumed (sibling agreement)",
                 "every ISocket::recv that receives whole batches from its ingress queue stores the frames it does not return in a stash (as PULL/SUB/DEALER/ROUTER do)")
    for cfg, prog in chk.configs():
        fields = stash_fields(prog)
        names = sorted(set(n for _, n in fields))
        for body in prog.bodies.values():
            if body.impl_trait != "socket::ISocket" or body.name != "recv" or not body.kind.startswith("coroutine"):
                continue
            sock = short(body.impl_self or "?")
            # receives from an ingress queue?
            reach = prog.reach([strip_generics(body.path)])
            gets_batches = any(re.search(r"IngressEngine::(recv_logical_message|pop|recv_multipart|recv)$|recv_logical_finalized|recv_complete_request", t) for t in reach)
            if not gets_batches:
                r.note("%s: %s::recv does not read an ingress queue - no obligation" % (cfg, sock))
                continue
            key = "%s::recv|keeps tail" % sock
            stores = False
            for t in reach:
                tb = prog.body(t)
                if tb is None or "socket::" not in t:
                    continue
                if stash_writes(tb, names) or (tb.impl_self and "AnonymousIngressEngine" in tb.impl_self and tb.name == "recv"):
                    stores = True
                    break
            if stores:
                r.ok(cfg, key, where(body, 0), "remaining frames go to a stash")
            else:
                r.bad(cfg, key, where(body, 0), "recv() takes a whole batch from the ingress queue, returns one frame and has no stash: the remaining frames of a multipart message are dropped")
        r.require(cfg, 6, "recv implementations reading an ingress queue (PULL, SUB, DEALER, ROUTER, REP, REQ)")


def run(chk):
    chk.undecided = ["contiguity under all attach/detach interleavings beyond R1", "flag correctness for every message shape (value-level)"]
    r1_who_clears_stash(chk)
    r2_more_normalisation(chk)
    r3_capacity(chk)
    r3b_sum_is_what_is_built(chk)
    r4_only_complete_batches(chk)
    r5_recv_keeps_tail(chk)
