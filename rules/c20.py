"""C20 — the io_uring backend is observably equivalent to the Tokio backend.

Decides structural necessary conditions of equivalence and of resource hygiene: one protocol engine
for both back-ends, the back-ends' engine-driver sets agree, send-pool buffer ids are always consumed,
receive-ring buffer ids are always re-provided, who may close an fd, and whether the accept permit
follows the connection on both back-ends.  Observational equivalence over all workloads and
'closed exactly once' are dynamic and are not decided."""
import re

from vlib import mir
from vlib.mir import strip_generics
from vlib.util import where, short, is_plumbing

PAYLOAD = "io_uring_backend::worker::internal_op_tracker::InternalOpPayload"


def r1_one_engine(chk):
    r = chk.rule("R1", "both back-ends frame and parse only through the ZMTP engine", "T1 who-may-call",
                 "frame encoders/decoders are called only from protocol::zmtp and security::framer; back-end code reaches them through ZmtpEngine")
    for cfg, prog in chk.configs():
        n = 0
        for c in prog.all_calls():
            if not re.search(r"ZmtpManualParser::(decode_|peek_)|ZmtpCodec as .*(Decoder|Encoder)|ZmtpCodec::encode_header_only|ZmtpFrameEncoder::frame_", c.callee):
                continue
            if "tests" in c.body.path:
                continue
            n += 1
            ok = re.search(r"^(<)?(protocol::zmtp|security::)", strip_generics(c.body.path)) is not None
            key = "%s|calls %s" % (short(c.body.path), c.name)
            (r.ok if ok else r.bad)(cfg, key, where(c.body, c.blk), *([] if ok else ["a frame codec is driven directly from `%s`, bypassing the shared ZmtpEngine: the two back-ends can diverge" % short(c.body.path)]))
        r.require(cfg, 4, "codec call sites")


def r2_driver_sets(chk):
    r = chk.rule("R2", "the back-ends call the same engine entry points", "T2 sibling agreement",
                 "the set of ZmtpEngine driver methods {start, on_network_bytes, on_tick, on_app_message|frame_batch*, close} used by the io_uring handler equals the set used by the Tokio session")
    for cfg, prog in chk.configs(needs=("full-linux",)):
        sets = {}
        for c in prog.all_calls():
            if c.callee.startswith("protocol::zmtp::engine::ZmtpEngine::") and c.name in ("start", "on_network_bytes", "on_tick") and "tests" not in c.body.path:
                p = strip_generics(c.body.path)
                be = "io_uring" if p.startswith("io_uring_backend") or p.startswith("<io_uring_backend") else ("tokio" if p.startswith("sessionx") else None)
                if be:
                    sets.setdefault(be, set()).add(c.name)
        for m in sorted(sets.get("tokio", set())):
            key = "io_uring|calls ZmtpEngine::%s like the Tokio session" % m
            if m in sets.get("io_uring", set()):
                r.ok(cfg, key, "core/src/io_uring_backend")
            else:
                r.bad(cfg, key, "core/src/io_uring_backend", "the Tokio session drives ZmtpEngine::%s, the io_uring handler never does" % m)
        r.require(cfg, 3, "engine driver methods")


def _payload_id_bindings(body):
    """[(blk, local)] statements copying `.send_buf_id` out of an InternalOpPayload place"""
    out = []
    for b, i, st in body.statements():
        if st["k"] != "assign" or st["p"]["pr"]:
            continue
        rv = st["r"]
        if rv["k"] != "use" or rv["o"]["c"] not in ("copy", "move"):
            continue
        pr = rv["o"]["p"]["pr"]
        if pr and pr[-1][0] == "field" and pr[-1][2] == "send_buf_id" and any(e[0] == "downcast" and e[1] in ("SendZeroCopy", "SendZeroCopyLeased") for e in pr):
            out.append((b, st["p"]["l"], rv["o"]["p"]))
    return out


def _flows_from(body, o, l, depth=0):
    """operand is (a by-value copy chain of) local l"""
    for _ in range(8):
        if o["c"] not in ("copy", "move"):
            return False
        if o["p"]["l"] == l:
            return True
        if o["p"]["pr"]:
            return False
        ds = body.whole_defs(o["p"]["l"])
        if len(ds) != 1 or ds[0][0] != "assign" or ds[0][3]["r"]["k"] != "use":
            return False
        o = ds[0][3]["r"]["o"]
    return False


def r4_send_buffers(chk):
    r = chk.rule("R4", "send-pool buffer ids are always given back", "T10 acquire/release pairing",
                 "every RegisteredSendBufferId bound out of an owned InternalOpPayload reaches release_buffer, reinsert_for_notification or a new InternalOpPayload on every path of its arm (no pool configured => nothing was leased)")
    for cfg, prog in chk.configs(needs=("full-linux",)):
        n_rel = len([c for c in prog.calls_to(r"SendBufferPool::release_buffer$") if "tests" not in c.body.path])
        for body in prog.bodies.values():
            if "io_uring_backend::worker::cqe_processor" not in body.path or "tests" in body.path:
                continue
            for b, l, src in _payload_id_bindings(body):
                # owned payload? (reads through `&op.payload` only inspect)
                if any(e[0] == "deref" for e in src["pr"]):
                    continue
                key = "%s|send_buf_id bound#%d is consumed" % (short(body.path), len([x for x in r.instances if x["config"] == cfg and short(body.path) in x["key"]]))
                consumers = set()
                for c in body.calls:
                    if c.matches(r"SendBufferPool::release_buffer$|reinsert_for_notification$|InternalOpTracker::(new_op_id|insert)") and any(_flows_from(body, a, l) for a in c.args):
                        consumers.add(c.blk)
                for ab, ai, st in body.aggregates():
                    if st["r"].get("adt") == PAYLOAD and any(_flows_from(body, o, l) for o in st["r"]["ops"]):
                        consumers.add(ab)
                # accepted idiom: `if let Some(pool) = &worker.send_buffer_pool { release }` - None edge = nothing leased
                avoid_edges = set()
                for s in range(body.n):
                    t = body.term(s)
                    if t["k"] == "switch":
                        a, _ = body.cond_atom(t["d"])
                        if a[0] == "discr" and a[1].endswith("send_buffer_pool") and a[2].startswith("std::option::Option<"):
                            avoid_edges.add((s, body.label_for(s, 0)))
                # region end: the join of the switch whose arm contains the binding
                gs = [g for g in body.guards(b) if g.atom[0] == "discr" and g.atom[2] == PAYLOAD]
                join = body.ipdom.get(gs[-1].s) if gs else None
                reach = body.reachable([b], avoid_blocks=consumers, avoid_edges=avoid_edges)
                leak = (join in reach) or any(body.term(x)["k"] == "return" for x in reach)
                if b in consumers:
                    leak = False
                if leak:
                    r.bad(cfg, key, where(body, b), "a registered send buffer id taken out of a completed/aborted op can reach the end of its arm without release_buffer / reinsert / re-queue: the shared send pool leaks a slot and is eventually exhausted")
                else:
                    r.ok(cfg, key, where(body, b))
        if n_rel < 9:
            r.bad(cfg, "floor|release_buffer sites", "core/src/io_uring_backend", "only %d release_buffer call sites (9 on the pinned tree): a release was removed" % n_rel)
        else:
            r.ok(cfg, "release_buffer sites >= 9", "core/src/io_uring_backend", "%d" % n_rel)
        r.require(cfg, 6, "send_buf_id bindings")


def r5_ring_buffers(chk):
    r = chk.rule("R5", "receive-ring buffer ids are always re-provided", "T10/T4 must-pass-through",
                 "after cqueue::buffer_select yields a buffer id, every path to the function's return passes take_and_replenish_buffer or reprovide_buffer")
    for cfg, prog in chk.configs(needs=("full-linux",)):
        for body in prog.bodies.values():
            if "tests" in body.path or "io_uring_backend" not in body.path:
                continue
            sels = [c for c in body.calls if c.matches(r"cqueue::buffer_select$")]
            if not sels:
                continue
            cons = set(c.blk for c in body.calls if c.matches(r"take_and_replenish_buffer$|reprovide_buffer$"))
            for c in sels:
                # Some edge(s): unwrap of the result / discr Some
                starts = []
                for u in body.calls:
                    if u.name in ("unwrap", "expect") and "buffer_select" in body.provenance(u.args[0]) and body.provenance(u.args[0]).count("buffer_select") and u.target is not None:
                        if body.value_origin(u.args[0])[0] == "call" and body.value_origin(u.args[0])[1].blk == c.blk:
                            starts.append(u.target)
                for s in range(body.n):
                    t = body.term(s)
                    if t["k"] == "switch":
                        a, _ = body.cond_atom(t["d"])
                        if a[0] == "discr" and a[2].startswith("std::option::Option<u16>") and a[3]["l"] == c.dest["l"]:
                            starts += [tb for tb, lab in body.edges(s) if lab == body.label_for(s, 1)]
                if not starts:
                    continue
                key = "%s|buffer id from buffer_select#%d re-provided" % (short(body.path), sels.index(c))
                # accepted idiom: `if let Some(bm) = worker.buffer_manager.as_ref()` - without a manager there is no ring
                none_edges = set()
                for s in range(body.n):
                    t = body.term(s)
                    if t["k"] == "switch":
                        a, _ = body.cond_atom(t["d"])
                        if a[0] == "discr" and "buffer_manager" in a[1] and a[2].startswith("std::option::Option<"):
                            none_edges.add((s, body.label_for(s, 0)))
                reach = body.reachable(starts, avoid_blocks=cons, avoid_edges=none_edges)
                # loop back to the CQE loop head counts as leaving the arm: use return or the loop header of the enclosing loop
                loops = body.loops_containing(c.blk)
                exits = [x for x in reach if body.term(x)["k"] == "return"]
                if loops and loops[0][0] in reach and c.blk not in cons:
                    exits.append(loops[0][0])
                if exits:
                    r.bad(cfg, key, where(body, c.blk), "a kernel-provided receive buffer id can leave this function without take_and_replenish_buffer / reprovide_buffer: the shared receive ring loses a slot")
                else:
                    r.ok(cfg, key, where(body, c.blk))
        r.require(cfg, 2, "buffer_select sites with a known id")


CLOSE_OWNERS = {
    "io_uring_backend::worker::cqe_processor::process_all_cqes": "CloseFd completions / failed registrations",
    "io_uring_backend::worker::main_loop": "worker shutdown / failed registration",
    "io_uring_backend::worker::sqe_builder::build_sqe_for_external_request": "failed external request",
    "transport::tcp::TcpListener::run_accept_loop": "hand-off error paths (worker never took the fd)",
    "transport::tcp::TcpConnecter::try_connect_once": "hand-off error paths (worker never took the fd)",
    "transport::ipc::": "hand-off error paths (worker never took the fd)",
}


def r6_who_closes(chk):
    r = chk.rule("R6", "who may close a file descriptor", "T1 who-may-call",
                 "libc::close is called only by the io_uring worker's completion/cleanup code and by the hand-off error paths of the transports; connection handlers only request a close")
    for cfg, prog in chk.configs(needs=("full-linux",)):
        for c in prog.all_calls():
            if c.callee != "libc::close" or "tests" in c.body.path:
                continue
            p = strip_generics(c.body.root)
            owner = next((k for k in CLOSE_OWNERS if p.startswith(k)), None)
            key = "%s|libc::close#%d" % (short(p), len([x for x in r.instances if x["config"] == cfg and short(p) in x["key"]]))
            if owner:
                r.ok(cfg, key, where(c.body, c.blk), CLOSE_OWNERS[owner])
            else:
                r.bad(cfg, key, where(c.body, c.blk), "`%s` closes a raw fd itself: the worker also closes it on its CloseFd completion (double close / close of a reused descriptor)" % short(p))
        r.require(cfg, 13, "libc::close call sites")


def r7_accept_permit(chk):
    r = chk.rule("R7", "the accept permit follows the connection on both back-ends", "T11 derives-from",
                 "the MAX_CONNECTIONS permit taken by the accept loop is moved into the per-connection owner: the session actor (Tokio) or the io_uring registration request")
    for cfg, prog in chk.configs(needs=("full-linux",)):
        for body in prog.bodies.values():
            if not re.search(r"transport::(tcp::TcpListener|ipc::IpcListener)::run_accept_loop::\{closure#0\}::\{closure#0\}$", strip_generics(body.path)):
                continue
            # permit upvar/local of type OwnedSemaphorePermit
            permit_locals = [i for i, t in enumerate(body.locals) if "OwnedSemaphorePermit" in t]
            tok = [c for c in body.calls if c.matches(r"SessionConnectionActorX::create_and_spawn$")]
            key_t = "%s|permit -> session actor" % short(body.path)
            ok_t = any("OwnedSemaphorePermit" in (a["p"]["ty"] if a["c"] in ("copy", "move") else "") for c in tok for a in c.args)
            (r.ok if ok_t else r.bad)(cfg, key_t, where(body, tok[0].blk if tok else 0), *([] if ok_t else ["the permit is not moved into the session actor"]))
            regs = [(b, st) for b, i, st in body.aggregates() if st["r"].get("variant") == "RegisterExternalZmtpFd"]
            if regs:
                key_u = "%s|permit -> io_uring registration" % short(body.path)
                ok_u = any("OwnedSemaphorePermit" in (o["p"]["ty"] if o["c"] in ("copy", "move") else "") for b, st in regs for o in st["r"]["ops"])
                (r.ok if ok_u else r.bad)(cfg, key_u, where(body, regs[0][0]), *([] if ok_u else ["on the io_uring path the accept permit is dropped when the hand-off task ends instead of living as long as the connection: MAX_CONNECTIONS does not bound io_uring connections"]))
        r.require(cfg, 2, "accept hand-off paths")


def r8_spillover_fifo(chk):
    r = chk.rule("R8", "the io_uring handler's stash keeps per-connection order", "T3 guarded-by + T10 queue-end discipline",
                 "ZmtpUringHandler hands a freshly decoded batch to the socket's queue only under spillover.is_empty() == true (otherwise it is appended with push_back); "
                 "the drain sends what pop_front returned and puts a refused batch back with push_front: the same FIFO the Tokio session keeps with its ingress_buffer")
    for cfg, prog in chk.configs():
        hb = [b for b in prog.bodies.values() if b.impl_self and b.impl_self.endswith("zmtp_handler::ZmtpUringHandler") and "::tests" not in b.path]
        if not hb:
            if cfg in ("full-linux",):
                r.bad(cfg, "anchor|ZmtpUringHandler", "core/src/io_uring_backend/zmtp_handler.rs", "handler bodies not found")
            continue
        n = 0
        for b in hb:
            sends = [c for c in b.calls if c.name in ("try_send_sync", "try_send", "send", "try_send_batch", "send_batch") and "ingress_sender" in (c.recv() or "")]
            for c in sends:
                n += 1
                arg = b.provenance(c.args[1]) if len(c.args) > 1 else ""
                idx = [x.blk for x in sends].index(c.blk)
                if re.search(r"pop_front\(self\.spillover\)", arg):
                    key = "%s|drain sends the oldest stashed batch and puts a refusal back in front" % short(b.path)
                    backs = [x for x in b.calls if x.name in ("push_back", "push_front", "insert") and "spillover" in (x.recv() or "") and x.blk in b.reachable([c.blk])]
                    wrong = [x for x in backs if x.name != "push_front"]
                    if wrong or not backs:
                        r.bad(cfg, key, where(b, (wrong or [c])[0].blk), "a batch refused during the drain is not put back at the front of the stash (found %s): it would be delivered after newer ones" % ([x.name for x in backs] or "no put-back"))
                    else:
                        r.ok(cfg, key, where(b, c.blk), "pop_front -> send -> push_front on refusal")
                else:
                    key = "%s|fresh batch #%d goes to the queue only when nothing is stashed" % (short(b.path), idx)
                    gs = b.guards(c.blk)
                    if any(g.atom[0] == "call" and g.atom[1].name == "is_empty" and "spillover" in (g.atom[1].recv() or "") and g.truth is True for g in gs):
                        backs = [x for x in b.calls if x.name in ("push_front", "insert") and "spillover" in (x.recv() or "")]
                        if backs:
                            r.bad(cfg, key, where(b, backs[0].blk), "a fresh batch is stashed with %s: it overtakes the batches stashed before it" % backs[0].name)
                        else:
                            r.ok(cfg, key, where(b, c.blk), "guarded by spillover.is_empty(); stashes use push_back")
                    else:
                        r.bad(cfg, key, where(b, c.blk), "a freshly decoded batch can be handed to the socket's queue while older batches of the same connection are still stashed in `spillover`: per-connection order differs from the Tokio backend")
        r.require(cfg, 2 if cfg in ("full-linux", "full") else 0, "sends towards the socket's queue in the io_uring handler")


def run(chk):
    chk.undecided = ["observational equivalence of the two back-ends over all workloads (differential, dynamic)", "each fd closed exactly once (decided only as who-may-call)"]
    r1_one_engine(chk)
    r2_driver_sets(chk)
    r4_send_buffers(chk)
    r5_ring_buffers(chk)
    r6_who_closes(chk)
    r7_accept_permit(chk)
    r8_spillover_fifo(chk)
