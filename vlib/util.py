"""Helpers shared by the rule modules."""
import re

from .mir import Call, strip_generics

INF = float("inf")

SWAP = {"Lt": "Gt", "Le": "Ge", "Gt": "Lt", "Ge": "Le", "Eq": "Eq", "Ne": "Ne"}
NEG = {"Lt": "Ge", "Le": "Gt", "Gt": "Le", "Ge": "Lt", "Eq": "Ne", "Ne": "Eq"}


def where(body, blk):
    t = body.term(blk)
    return "%s (%s)" % (t.get("sp", "?"), short(body.path))


def _last(seg):
    seg = seg.strip()
    # keep generic-free last path segment of a type path
    depth = 0
    cut = 0
    for i, ch in enumerate(seg):
        if ch == "<":
            depth += 1
        elif ch == ">":
            depth -= 1
        elif ch == ":" and depth == 0:
            cut = i + 1
    return seg[cut:]


def short(path):
    """stable short name of a body path (no line numbers):
    `<socket::req_socket::ReqSocket as socket::ISocket>::recv::{closure#0}` -> `<ReqSocket as ISocket>::recv::{closure#0}`"""
    p = strip_generics(path)
    m = re.match(r"^<(.+?) as (.+?)>::(.*)$", p)
    if m:
        return "<%s as %s>::%s" % (_last(m.group(1)), _last(m.group(2)), m.group(3))
    parts = p.split("::")
    # keep from the last type-like (Capitalised) segment, or the last 3 segments
    for i, seg in enumerate(parts):
        if seg[:1].isupper():
            return "::".join(parts[max(0, i - 1):]) if i > 0 else p
    return "::".join(parts[-3:]) if len(parts) > 3 else p


def norm_cmp(body, guard):
    """For a guard whose atom is an integer comparison return
    (lhs_path, op, rhs) valid on the guarded edge, with a constant (if any) on the
    right: rhs is an int or a path string.  None if not a comparison."""
    a = guard.atom
    if a[0] != "cmp" or guard.truth is None:
        return None
    op, x, y = a[1], a[2], a[3]
    if not guard.truth:
        op = NEG[op]
    cx, cy = body.const_int(x), body.const_int(y)
    if cx is not None and cy is None:
        x, y, cx, cy = y, x, cy, cx
        op = SWAP[op]
    lhs = body.opath(x)
    rhs = cy if cy is not None else body.opath(y)
    return lhs, op, rhs


def interval(op, c):
    """unsigned interval of x for `x op c`"""
    if op == "Eq":
        return (c, c)
    if op == "Lt":
        return (0, c - 1)
    if op == "Le":
        return (0, c)
    if op == "Gt":
        return (c + 1, INF)
    if op == "Ge":
        return (c, INF)
    return (0, INF)


def guard_interval(body, guards, path_rx):
    """intersection of the intervals the guards imply for the value whose access
    path matches path_rx (constants only)"""
    lo, hi = 0, INF
    hit = False
    for g in guards:
        nc = norm_cmp(body, g)
        if nc is None:
            continue
        lhs, op, rhs = nc
        if isinstance(rhs, int) and re.search(path_rx, lhs):
            l2, h2 = interval(op, rhs)
            lo, hi = max(lo, l2), min(hi, h2)
            hit = True
    return (lo, hi) if hit else None


def calls_on(body, method_rx, recv_rx=None, ty_rx=None):
    out = []
    for c in body.calls:
        if not c.matches(method_rx):
            continue
        if recv_rx is not None:
            r = c.recv()
            if r is None or not re.search(recv_rx, r):
                continue
        if ty_rx is not None:
            if not c.args or c.args[0]["c"] not in ("copy", "move"):
                continue
            if not re.search(ty_rx, c.args[0]["p"]["ty"]):
                continue
        out.append(c)
    return out


def arg_type(c, i=0):
    if i >= len(c.args):
        return ""
    a = c.args[i]
    if a["c"] in ("copy", "move"):
        return a["p"]["ty"]
    return a.get("ty", "")


def result_switch(body, call):
    """(switch_block, place) of the switch on the discriminant of the call's result
    (following an optional await is NOT done here)."""
    dl = call.dest["l"]
    for s in range(body.n):
        t = body.term(s)
        if t["k"] != "switch":
            continue
        a, _ = body.cond_atom(t["d"])
        if a[0] == "discr" and a[3]["l"] == dl and not a[3]["pr"]:
            return s
    return None


def discr_switches(body, local, proj_rx=None):
    """switch blocks on discriminant(<place rooted at local>)"""
    out = []
    for s in range(body.n):
        t = body.term(s)
        if t["k"] != "switch":
            continue
        a, _ = body.cond_atom(t["d"])
        if a[0] == "discr" and a[3]["l"] == local:
            out.append(s)
    return out


def is_mutating_call(c, recv_path):
    """call that may mutate the container at recv_path (enumerated mutators)"""
    if c.recv() != recv_path:
        return False
    return c.name in (
        "push", "push_back", "push_front", "pop", "pop_back", "pop_front", "insert", "remove", "clear", "truncate", "extend", "append",
        "drain", "retain", "swap_remove", "swap_remove_back", "swap_remove_front", "split_off", "resize", "take",
    )


PLUMBING = ("level_enabled", "$crate::event", "tracing::", "macro:Debug", "macro:Clone", "macro:PartialEq", "macro:warn", "macro:debug", "macro:trace", "macro:info", "macro:error")


def is_plumbing(t):
    """terminator/statement that belongs to logging / derive expansion"""
    e = t.get("exp")
    if not e:
        return False
    return any(x in e for x in PLUMBING)


def field_key(path):
    """last named segment of an access path: `self.a.b` -> `b`; `self__x` (closure capture) -> `x`"""
    p = path.replace("self__", "self.")
    p = re.sub(r"@\w+", "", p)
    p = re.sub(r"\(\)$", "", p)
    segs = [s for s in re.split(r"[.\[\]]", p) if s and not s.isdigit()]
    return segs[-1] if segs else p
