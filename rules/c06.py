"""C06 — a configured security mechanism cannot be bypassed or downgraded.

Decides the control-flow gates of the ZMTP engine's phase machine (which phase
assignments are reachable under which guards) and the mechanism typestate
assignments; not the cryptography."""
import re

from vlib.util import where, short, is_plumbing

PHASE_ADT = "protocol::zmtp::engine::ZmtpPhase"


def phase_assignments(body):
    """[(block, stmt_index, variant)] for `self.phase = ZmtpPhase::X`"""
    out = []
    for b, i, st in body.statements():
        if st["k"] != "assign":
            continue
        p = st["p"]
        if not p["pr"] or p["pr"][-1][0] != "field" or p["pr"][-1][2] != "phase" or p["ty"] != PHASE_ADT:
            continue
        rv = st["r"]
        if rv["k"] == "use":
            org = body.value_origin(rv["o"])
            if org[0] == "agg" and org[1]["r"].get("adt") == PHASE_ADT:
                out.append((b, i, org[1]["r"]["variant"]))
            else:
                out.append((b, i, "?"))
        elif rv["k"] == "agg" and rv.get("adt") == PHASE_ADT:
            out.append((b, i, rv["variant"]))
    return out


def phase_variant_index(prog, name):
    a = prog.facts.adts.get(PHASE_ADT)
    for i, v in enumerate(a["variants"]):
        if v["name"] == name:
            return i
    return None


def guarded_by_place(body, blk, field_rx, truth):
    for g in body.guards(blk, select_aware=False):
        if g.atom[0] == "place" and re.search(field_rx, g.atom[1]) and g.truth is truth:
            return g
    return None


def guarded_by_call(body, blk, rx, truth):
    for g in body.guards(blk, select_aware=False):
        if g.atom[0] == "call" and g.atom[1].matches(rx) and g.truth is truth:
            return g
    return None


def guarded_by_phase(body, blk, vidx):
    for g in body.guards(blk, select_aware=False):
        if g.atom[0] == "discr" and g.atom[2] == PHASE_ADT and g.atom[1].endswith(".phase") and g.is_value(vidx, 6):
            return g
    return None


def engine_bodies(prog):
    return [b for b in prog.bodies.values() if b.impl_self == "protocol::zmtp::engine::ZmtpEngine" and "::tests" not in b.path]


def run(chk):
    chk.undecided = ["soundness of the cryptographic handshakes (PLAIN compare, CURVE, Noise)", "attacker grammars beyond the control-flow gates"]
    r1 = chk.rule("R1", "the Data phase is reachable only through authentication", "T3 guarded-by",
                  "each assignment phase=V2Identity is dominated by `security_enabled == false`; each phase=Data is dominated by activate_pending_framer() (READY path) or lies behind the V2Identity gate")
    r2 = chk.rule("R2", "Ready requires a completed mechanism", "T3 guarded-by", "each assignment phase=Ready is dominated by the true edge of Mechanism::is_complete()")
    r3 = chk.rule("R3", "the negotiated framer is installed before Data", "T3 dominance", "pending_framer is derived before phase=Ready and activated before phase=Data on the READY path")
    r6 = chk.rule("R6", "delivery starts in Data", "T1 who-may-construct + T3", "AppAction::DeliverMessage is constructed only in the data-phase handler, which is entered only with phase == Data")
    r7 = chk.rule("R7", "token-phase errors are fatal", "T4 must-pass-through", "every Err from process_token/produce_token/is_error() leads to phase=Closed and a PeerError before returning")
    for cfg, prog in chk.configs():
        eng = engine_bodies(prog)
        if not eng:
            r1.bad(cfg, "anchor|ZmtpEngine", "-", "no ZmtpEngine bodies found")
            continue
        v_data = phase_variant_index(prog, "Data")
        v_v2 = phase_variant_index(prog, "V2Identity")
        by_variant = {}
        for b in eng:
            for blk, i, var in phase_assignments(b):
                by_variant.setdefault(var, []).append((b, blk))
        # ---------------- R1
        for b, blk in by_variant.get("V2Identity", []):
            key = "%s|phase=V2Identity" % short(b.path)
            if guarded_by_place(b, blk, r"\.security_enabled$", False):
                r1.ok(cfg, key, where(b, blk), "dominated by security_enabled == false")
            else:
                r1.bad(cfg, key, where(b, blk), "the ZMTP/2.0 downgrade path sets phase=V2Identity without consulting config.security_enabled: a peer announcing revision 1 bypasses PLAIN/CURVE/Noise and its data is delivered unauthenticated")
        gate_bodies = set()
        for b, blk in by_variant.get("Data", []):
            key = "%s|phase=Data" % short(b.path)
            act = [c for c in b.calls if c.matches(r"ZmtpEngine::activate_pending_framer$") and b.dominates(c.blk, blk)]
            if act:
                # READY path: the body must only be entered in phase Ready -> checked through R2 (Ready assignments) and call sites
                r1.ok(cfg, key, where(b, blk), "READY path: activate_pending_framer() dominates")
                continue
            # v2 path: every call site of this body must be behind the V2Identity gate
            sites = [c for c in prog.all_calls() if c.callee == b.path.replace("::<S>", "") or c.callee == __import__("vlib.mir", fromlist=["x"]).strip_generics(b.path)]
            bad = []
            for c in sites:
                cb = c.body
                dom_assign = any(var == "V2Identity" and cb.dominates(ab, c.blk) for ab, _, var in phase_assignments(cb))
                if dom_assign or guarded_by_phase(cb, c.blk, v_v2):
                    continue
                bad.append(c)
            if sites and not bad:
                r1.ok(cfg, key, where(b, blk), "v2 path: all %d call sites are behind phase == V2Identity (whose assignment is checked above)" % len(sites))
            else:
                r1.bad(cfg, key, where(b, blk), "phase=Data assigned outside the READY path and the function is callable without the V2Identity gate (%s)" % [c.sp for c in bad])
        r1.require(cfg, 3, "phase=V2Identity (1) and phase=Data (2) assignments")
        # ---------------- R2 / R3
        for b, blk in by_variant.get("Ready", []):
            key = "%s|phase=Ready" % short(b.path)
            if guarded_by_call(b, blk, r"Mechanism::is_complete$", True):
                r2.ok(cfg, key, where(b, blk), "dominated by is_complete() == true")
            else:
                r2.bad(cfg, key, where(b, blk), "phase=Ready is reachable without Mechanism::is_complete() being true: READY would be accepted from an unauthenticated peer")
            # pending_framer stored from derive_pending_framer before Ready
            stores = []
            for sb, si, st in b.statements():
                if st["k"] == "assign" and st["p"]["pr"] and st["p"]["pr"][-1][0] == "field" and st["p"]["pr"][-1][2] == "pending_framer" and b.dominates(sb, blk):
                    stores.append(sb)
            derive = [c for c in b.calls if c.matches(r"ZmtpEngine::derive_pending_framer$") and b.dominates(c.blk, blk)]
            if stores and derive:
                r3.ok(cfg, key + "|pending_framer derived", where(b, blk))
            else:
                r3.bad(cfg, key + "|pending_framer derived", where(b, blk), "phase=Ready without storing the framer derived from the completed mechanism: the data phase would run on the plain framer")
        r2.require(cfg, 2, "phase=Ready assignments")
        for b, blk in by_variant.get("Data", []):
            if any(c.matches(r"ZmtpEngine::activate_pending_framer$") for c in b.calls):
                key = "%s|activate before Data" % short(b.path)
                if any(c.matches(r"ZmtpEngine::activate_pending_framer$") and b.dominates(c.blk, blk) for c in b.calls):
                    r3.ok(cfg, key, where(b, blk))
                else:
                    r3.bad(cfg, key, where(b, blk), "phase=Data not dominated by activate_pending_framer()")
        r3.require(cfg, 3, "framer hand-over obligations")
        # ---------------- R6
        makers = []
        for b in prog.bodies.values():
            if b.impl_trait == "std::clone::Clone" or "::tests" in b.path:
                continue
            for ab, ai, st in b.aggregates():
                if st["r"].get("adt", "").endswith("actions::AppAction") and st["r"].get("variant") == "DeliverMessage":
                    makers.append((b, ab))
        for b, ab in makers:
            key = "%s|constructs DeliverMessage" % short(b.path)
            if b.impl_self == "protocol::zmtp::engine::ZmtpEngine" and b.name == "process_data":
                r6.ok(cfg, key, where(b, ab))
            else:
                r6.bad(cfg, key, where(b, ab), "AppAction::DeliverMessage constructed outside the data-phase handler")
        for c in prog.all_calls():
            if c.callee == "protocol::zmtp::engine::ZmtpEngine::process_data" and "::tests" not in c.body.path:
                cb = c.body
                key = "%s|calls process_data" % short(cb.path)
                dom_assign = any(var == "Data" and cb.dominates(ab, c.blk) for ab, _, var in phase_assignments(cb))
                if dom_assign or guarded_by_phase(cb, c.blk, v_data):
                    r6.ok(cfg, key, where(cb, c.blk), "phase == Data established")
                else:
                    r6.bad(cfg, key, where(cb, c.blk), "the data-phase handler is called on a path where phase == Data is not established: frames sent before authentication finished would be delivered")
        r6.require(cfg, 4, "DeliverMessage constructor (1) + process_data call sites (3)")
        # ---------------- R7
        for b in eng:
            for c in b.calls:
                if not (c.trait == "security::mechanism::Mechanism" and c.name in ("process_token", "produce_token")):
                    continue
                key = "%s|%s Err is fatal" % (short(b.path), c.name)
                # Err edge of the discriminant of the call's result
                err_targets = []
                for s in range(b.n):
                    t = b.term(s)
                    if t["k"] != "switch":
                        continue
                    a, _ = b.cond_atom(t["d"])
                    if a[0] == "discr" and a[3]["l"] == c.dest["l"] and not a[3]["pr"] and a[2].startswith("std::result::Result<"):
                        err_targets += [tb for v, tb in t["targets"] if v == 1]
                if not err_targets:
                    r7.bad(cfg, key, where(b, c.blk), "result of the mechanism call is not matched")
                    continue
                closed = set(blk for blk, _, var in phase_assignments(b) if var == "Closed")
                failc = set(x.blk for x in b.calls if x.matches(r"ZmtpEngine::fail$"))
                reach = b.reachable(err_targets, avoid_blocks=closed | failc)
                if any(b.term(x)["k"] == "return" for x in reach):
                    r7.bad(cfg, key, where(b, c.blk), "an Err from the mechanism can return without phase=Closed: the handshake would continue after a failed authentication step")
                else:
                    r7.ok(cfg, key, where(b, c.blk), "every Err path assigns phase=Closed before returning")
            for c in b.calls:
                if c.trait == "security::mechanism::Mechanism" and c.name == "is_error":
                    key = "%s|is_error() is fatal" % short(b.path)
                    g_targets = []
                    for s in range(b.n):
                        t = b.term(s)
                        if t["k"] == "switch":
                            a, pol = b.cond_atom(t["d"])
                            if a[0] == "call" and a[1].blk == c.blk:
                                lab = b.bool_edge_label(s, True if pol else False)
                                g_targets += [tb for tb, l2 in b.edges(s) if l2 == lab]
                    closed = set(blk for blk, _, var in phase_assignments(b) if var == "Closed")
                    reach = b.reachable(g_targets, avoid_blocks=closed)
                    if g_targets and not any(b.term(x)["k"] == "return" for x in reach):
                        r7.ok(cfg, key, where(b, c.blk))
                    else:
                        r7.bad(cfg, key, where(b, c.blk), "is_error() == true can return without phase=Closed")
        r7.require(cfg, 3, "mechanism result sites in the engine")


# ---------------------------------------------------------------------------
# R5: mechanism typestate
# ---------------------------------------------------------------------------
def _field_assigns(body, field, adt_suffix):
    out = []
    for b, i, st in body.statements():
        if st["k"] != "assign" or not st["p"]["pr"] or st["p"]["pr"][-1][0] != "field" or st["p"]["pr"][-1][2] != field:
            continue
        rv = st["r"]
        var = None
        if rv["k"] == "use":
            org = body.value_origin(rv["o"])
            if org[0] == "agg" and org[1]["r"].get("adt", "").endswith(adt_suffix):
                var = org[1]["r"]["variant"]
        elif rv["k"] == "agg" and rv.get("adt", "").endswith(adt_suffix):
            var = rv["variant"]
        if var:
            out.append((b, var))
    return out


def r5_mechanism_typestate(chk):
    r = chk.rule("R5", "a mechanism reports Ready only after its verification step succeeded", "T3 guarded-by",
                 "PLAIN: the server accepts (state=ServerSendWelcome) only under HELLO && expected_username.map_or(false, ==) && expected_password.map_or(false, ==); Ready is assigned only from ServerSendWelcome / on WELCOME. CURVE: status=Ready only after process_client_initiate()? / build_client_initiate()?. Noise: status=Ready only under is_handshake_finished()")
    for cfg, prog in chk.configs():
        # ---- PLAIN
        pt = prog.body("<security::plain::PlainMechanism as security::mechanism::Mechanism>::process_token")
        if pt is not None:
            acc = [b for b, v in _field_assigns(pt, "state", "plain::PlainState") if v == "ServerSendWelcome"]
            key = "PLAIN server|accepts only verified credentials"
            if len(acc) != 1:
                r.bad(cfg, key, where(pt, acc[0] if acc else 0), "expected exactly one transition to ServerSendWelcome in process_token, found %d" % len(acc))
            else:
                gs = pt.guards(acc[0], select_aware=False)
                need = {"expected_username": False, "expected_password": False}
                # `a && b` is lowered to a bool local assigned `false` on the short-circuit edge and `b` otherwise:
                # a guard `local == true` therefore implies its non-constant definitions and their own guards
                calls_true = [g.atom[1] for g in gs if g.atom[0] == "call" and g.truth is True]
                for g in gs:
                    if g.atom[0] == "place" and g.truth is True and not g.atom[2]["pr"]:
                        for d in pt.whole_defs(g.atom[2]["l"]):
                            if d[0] == "call":
                                dc = __import__("vlib.mir", fromlist=["Call"]).Call(pt, d[1], d[3])
                                calls_true.append(dc)
                                calls_true += [g2.atom[1] for g2 in pt.guards(d[1], select_aware=False) if g2.atom[0] == "call" and g2.truth is True]
                            elif d[0] == "assign" and d[3]["r"]["k"] == "use" and d[3]["r"]["o"].get("int") == 1:
                                need = {k_: False for k_ in need}
                                calls_true = []
                                break
                for c in calls_true:
                    if c.name == "map_or":
                        recv = pt.provenance(c.args[0])
                        dflt = pt.const_int(c.args[1]) if len(c.args) > 1 else None
                        for f in need:
                            if f in recv and dflt == 0:
                                # the closure compares with the value parsed from HELLO
                                clo = pt.value_origin(c.args[2]) if len(c.args) > 2 else ("?",)
                                caps = " ".join(pt.provenance(o) for o in clo[1]["r"]["ops"]) if clo[0] == "agg" else ""
                                if "parse_hello_body" in caps:
                                    need[f] = True
                hello = any(g.atom[0] == "call" and g.atom[1].name in ("eq",) and g.truth is True and "CMD_HELLO" in " ".join(pt.provenance(a) + (a.get("item") or "") for a in g.atom[1].args) for g in gs)
                srv = any(g.atom[0] == "place" and g.atom[1].endswith(".is_server") and g.truth is True for g in gs)
                if all(need.values()) and hello and srv:
                    r.ok(cfg, key, where(pt, acc[0]), "is_server && HELLO && both map_or(false, |x| x == received)")
                else:
                    miss = [f for f, v in need.items() if not v] + ([] if hello else ["HELLO command test"]) + ([] if srv else ["is_server"])
                    r.bad(cfg, key, where(pt, acc[0]), "the PLAIN server can accept a HELLO without %s: a peer with wrong (or no) credentials completes the mechanism" % ", ".join(miss))
            for body in (pt, prog.body("<security::plain::PlainMechanism as security::mechanism::Mechanism>::produce_token")):
                if body is None:
                    continue
                for b, v in _field_assigns(body, "state", "plain::PlainState"):
                    if v != "Ready":
                        continue
                    key = "PLAIN|Ready assigned in %s" % body.name
                    gs = body.guards(b, select_aware=False)
                    st_guard = [g for g in gs if g.atom[0] == "discr" and g.atom[2].endswith("plain::PlainState")]
                    adt = prog.facts.adts.get("security::plain::PlainState")
                    names = [x["name"] for x in adt["variants"]] if adt else []
                    from_state = [names[g.label] for g in st_guard if isinstance(g.label, int) and g.label < len(names)]
                    ok = ("ServerSendWelcome" in from_state) if body.name == "produce_token" else ("ClientExpectWelcome" in from_state and any(g.atom[0] == "call" and g.atom[1].name == "eq" and g.truth is True and "CMD_WELCOME" in " ".join(body.provenance(a) + (a.get("item") or "") for a in g.atom[1].args) for g in gs))
                    (r.ok if ok else r.bad)(cfg, key, where(body, b), *(["from %s" % from_state] if ok else ["PlainState::Ready is assigned from state(s) %s without the expected precondition (server: after ServerSendWelcome; client: on WELCOME while ClientExpectWelcome)" % from_state]))
        # ---- CURVE
        for nm, need_call in (("process_token", r"CurveHandshake::process_client_initiate$"), ("produce_token", r"CurveHandshake::build_client_initiate$")):
            body = prog.body("<security::curve::mechanism::CurveMechanism as security::mechanism::Mechanism>::" + nm)
            if body is None:
                continue
            for b, v in _field_assigns(body, "status", "MechanismStatus"):
                if v != "Ready":
                    continue
                key = "CURVE|status=Ready in %s only after the step succeeded" % nm
                ok = False
                for g in body.guards(b, select_aware=False):
                    if g.atom[0] == "discr" and g.atom[2].startswith("std::ops::ControlFlow<") and g.is_value(0) and re.search(need_call.rstrip("$"), g.atom[1]):
                        ok = True
                (r.ok if ok else r.bad)(cfg, key, where(body, b), *([] if ok else ["MechanismStatus::Ready is assigned without the `?`-success of %s dominating it: an INITIATE that fails verification would still complete the mechanism" % need_call.split("::")[-1].rstrip("$")]))
        # ---- Noise
        for body in prog.bodies.values():
            if body.impl_self != "security::noise_xx::NoiseXxMechanism" or body.kind == "closure":
                continue
            for b, v in _field_assigns(body, "current_status", "MechanismStatus"):
                if v != "Ready":
                    continue
                key = "NOISE_XX|status=Ready in %s under is_handshake_finished" % body.name
                ok = any(g.atom[0] == "call" and g.atom[1].name == "is_handshake_finished" and g.truth is True for g in body.guards(b, select_aware=False))
                (r.ok if ok else r.bad)(cfg, key, where(body, b), *([] if ok else ["Ready assigned without snow's is_handshake_finished() being true"]))
        floor = {"default": 3, "noplain": 0, "full": 6, "full-linux": 6}.get(cfg, 0)
        r.require(cfg, floor, "mechanism Ready/accept assignments")


_run_base = run


def run(chk):  # noqa: F811
    _run_base(chk)
    r5_mechanism_typestate(chk)
