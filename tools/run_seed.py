#!/usr/bin/env python3
"""Apply a seeded change to /repo, run every quick check, report which fire, undo the change.
usage: tools/run_seed.py <seed-dir> [props...]"""
import json, os, subprocess, sys
sd = os.path.abspath(sys.argv[1])
props = sys.argv[2:] or ["C%02d" % i for i in range(1, 21)]
st = subprocess.run("git -C /repo status --porcelain", shell=True, capture_output=True, text=True).stdout.strip()
if st:
    print("refusing: /repo has local changes:\n" + st); sys.exit(2)
r = subprocess.run("git -C /repo apply %s/patch.diff" % sd, shell=True, capture_output=True, text=True)
if r.returncode:
    print("patch does not apply:", r.stderr); sys.exit(2)
fired = {}
try:
    for p in props:
        env = dict(os.environ); env["VERIF_EVIDENCE_DIR"] = "/tmp/seed-evidence"
        o = subprocess.run(["/verif/verif", "check", p], capture_output=True, text=True, env=env, cwd="/verif")
        lines = o.stdout.splitlines()
        keys = [lines[i + 1].strip() for i, l in enumerate(lines) if l.startswith("VIOLATION") and i + 1 < len(lines)]
        if o.returncode == 2:
            keys.append("ERROR: " + (o.stdout + o.stderr)[-300:])
        if keys:
            fired[p] = keys
        print(p, "rc=%d" % o.returncode, "; ".join(k[:160] for k in keys))
finally:
    subprocess.run("git -C /repo checkout -- . && git -C /repo clean -fdq core interop cli bench 2>/dev/null", shell=True)
print("FIRED:", json.dumps(fired, indent=1))
