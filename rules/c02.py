"""C02 — multipart messages stay whole, contiguous and correctly flagged."""
import re

from vlib import mir
from vlib.mir import strip_generics
from vlib.util import where, short, is_plumbing

STASH_TY = r"Mutex<.*Option<std::collections::VecDeque<message::msg::Msg>>>"


def stash_fields(prog):
    out = {}
    for path, a in prog.facts.adts.items():
        for v in a["variants"]:
            for f in v["fields"]:
                if re.search(STASH_TY, f["ty"]):
                    out[(path, f["name"])] = f["ty"]
    return out


def stash_writes(body, names):
    """[(blk, field, how)] writes through `self.<field>.lock()`"""
    out = []
    rx = re.compile(r"Mutex::lock\(self\.(%s)\)" % "|".join(map(re.escape, names)))
    for b, i, st in body.statements():
        if st["k"] != "assign" or not st["p"]["pr"]:
            continue
        if st["p"]["pr"][-1][0] not in ("deref",):
            continue
        pp = body.place_path(st["p"])
        m = rx.search(pp)
        if m and not re.search(r"@Some", pp):
            out.append((b, m.group(1), "assignment"))
    for c in body.calls:
        if c.name in ("take", "replace", "insert", "get_or_insert_with") and c.args:
            pp = c.recv() or ""
            m = rx.search(pp)
            if m and "@Some" not in pp:
                out.append((c.blk, m.group(1), c.name))
    return out


def r1_who_clears_stash(chk):
    r = chk.rule("R1", "only recv/close may reset the partial-read stash", "T1 who-may-write",
                 "the stash holding the unread frames of a half-read multipart message is written only by the recv path that owns it and by close(); no attach/detach event may discard unread frames")
    allowed = {"recv", "recv_multipart", "close", "new", "drop"}
    for cfg, prog in chk.configs():
        fields = stash_fields(prog)
        names = sorted(set(n for _, n in fields))
        if len(fields) < 3:
            r.bad(cfg, "anchor|stash fields", "-", "expected 3 stash fields (AnonymousIngressEngine.local_cache, DealerSocket/RouterSocket.frame_recv_buffer), found %s" % sorted(fields))
            continue
        for body in prog.bodies.values():
            if "::tests" in body.path or not body.impl_self:
                continue
            owner = strip_generics(body.impl_self)
            mine = [n for (adt, n) in fields if adt == owner]
            if not mine:
                continue
            for blk, field, how in stash_writes(body, mine):
                fn = body.name or "?"
                key = "%s|writes %s" % (short(body.root), field)
                if fn in allowed:
                    r.ok(cfg, key, where(body, blk), "%s in %s()" % (how, fn))
                else:
                    r.bad(cfg, key, where(body, blk), "`%s()` resets the partial-read stash `%s`: frames of a half-read multipart message (possibly from another, still connected peer) are discarded and the next recv() starts a different message after a frame that said MORE" % (fn, field))
        r.require(cfg, 8, "stash writes in recv/close paths")


def _flag_ops(prog, body, depth=2, seen=None):
    """does this body (or local callees up to depth) both set and clear MsgFlags::MORE through set_flags?"""
    seen = seen or set()
    sets = clears = False
    if body is None or body.path in seen:
        return False, False
    seen.add(body.path)
    has_set_flags = any(c.matches(r"message::msg::Msg::set_flags$") for c in body.calls)
    if has_set_flags:
        for c in body.calls:
            if not (c.trait in ("std::ops::BitOr", "std::ops::BitAnd") and "message::flags" in c.callee):
                continue
            args = " ".join(body.provenance(a) + " " + a.get("item", "") for a in c.args)
            if c.name == "bitor" and "MsgFlags>::MORE" in args and body.loops_containing(c.blk):
                # per-frame normalisation: the OR happens inside the loop over the frames
                sets = True
            if c.name == "bitand" and "not(" in args:
                # the complemented operand must be MORE
                for n in body.calls:
                    if not body.loops_containing(c.blk):
                        break
                    if n.name == "not" and "message::flags" in n.callee and any("MsgFlags>::MORE" in (a.get("item") or "") for a in n.args) and n.dest["l"] in [a["p"]["l"] for a in c.args if a["c"] in ("copy", "move")]:
                        clears = True
    if depth > 0:
        for c in body.calls:
            for t in prog.callees_of_call(c):
                if "socket::" in t or "patterns::" in t:
                    s2, c2 = _flag_ops(prog, prog.body(t), depth - 1, seen)
                    sets, clears = sets or s2, clears or c2
        for _, _, st in body.aggregates():
            if st["r"].get("ak") in ("closure", "coroutine"):
                s2, c2 = _flag_ops(prog, prog.body(strip_generics(st["r"]["def"])), depth, seen)
                sets, clears = sets or s2, clears or c2
    return sets, clears


def _forwards(prog, body, depth=3, seen=None):
    """does send_multipart hand frames to a connection / router / distributor?"""
    seen = seen or set()
    if body is None or body.path in seen:
        return False
    seen.add(body.path)
    for c in body.calls:
        if c.matches(r"ISocketConnection::send_multipart|route_message$|send_to_all_multipart$|send_multipart_owned|send_with_timeout$|try_send_multipart"):
            return True
    if depth > 0:
        for c in body.calls:
            for t in prog.callees_of_call(c):
                if ("socket::" in t) and _forwards(prog, prog.body(t), depth - 1, seen):
                    return True
        for _, _, st in body.aggregates():
            if st["r"].get("ak") in ("closure", "coroutine") and _forwards(prog, prog.body(strip_generics(st["r"]["def"])), depth, seen):
                return True
    return False


def r2_more_normalisation(chk):
    r = chk.rule("R2", "every send_multipart normalises MORE flags", "T2 sibling agreement",
                 "each ISocket::send_multipart that forwards user frames sets MORE on all but the last frame and clears it on the last, inside a loop over the frames (in its body or a local callee)")
    for cfg, prog in chk.configs():
        for body in prog.bodies.values():
            if body.impl_trait != "socket::ISocket" or body.name != "send_multipart" or body.kind.startswith("coroutine") or body.kind == "closure":
                continue
            sock = short(body.impl_self or "?")
            key = "%s::send_multipart|MORE normalised" % sock
            if not _forwards(prog, body):
                r.note("%s: %s does not forward frames (returns an error) - no obligation" % (cfg, sock))
                continue
            sets, clears = _flag_ops(prog, body, depth=2)
            if sets and clears:
                r.ok(cfg, key, where(body, 0), "sets MORE on non-last frames and clears it on the last")
            else:
                r.bad(cfg, key, where(body, 0), "forwards user frames but %s: frames passed without pre-set MORE flags go out as separate messages (sibling sockets normalise)" % ("never sets MORE on intermediate frames" if not sets else "never clears MORE on the last frame"))
        r.require(cfg, 5, "send_multipart implementations that forward frames (PUSH, PUB, DEALER, REP, ROUTER)")


def r4_only_complete_batches(chk):
    r = chk.rule("R4", "only complete batches are delivered", "T3 guarded-by",
                 "the engine emits DeliverMessage only for a frame without MORE and hands over the accumulated batch with mem::replace")
    for cfg, prog in chk.configs():
        for body in prog.bodies.values():
            if body.impl_self != "protocol::zmtp::engine::ZmtpEngine" or body.name != "process_data":
                continue
            for b, i, st in body.aggregates():
                if st["r"].get("variant") == "DeliverMessage" and st["r"].get("adt", "").endswith("AppAction"):
                    key = "%s|DeliverMessage only when !is_more" % short(body.path)
                    g_ok = False
                    for g in body.guards(b, select_aware=False):
                        if g.atom[0] == "call" and g.atom[1].matches(r"Msg::is_more$") and g.truth is False:
                            g_ok = True
                        if g.atom[0] == "place" and g.truth is False and "is_more" in g.atom[1]:
                            g_ok = True
                    prov = body.provenance(st["r"]["ops"][0])
                    repl = "std::mem::replace(self.partial_batch)" in prov
                    if g_ok and repl:
                        r.ok(cfg, key, where(body, b), "guarded by is_more == false; payload = mem::replace(&mut self.partial_batch, ..)")
                    else:
                        r.bad(cfg, key, where(body, b), "DeliverMessage is emitted %s: a partial (or stale) multipart message could reach the application" % ("without the !is_more guard" if not g_ok else "with a payload that is not the replaced partial_batch (%s)" % prov[:80]))
        r.require(cfg, 1, "DeliverMessage construction in process_data")


def r5_recv_keeps_tail(chk):
    r = chk.rule("R5", "frame-by-frame recv() keeps the unread frames", "T5 payload consumed (sibling agreement)",
                 "every ISocket::recv that receives whole batches from its ingress queue stores the frames it does not return in a stash (as PULL/SUB/DEALER/ROUTER do)")
    for cfg, prog in chk.configs():
        fields = stash_fields(prog)
        names = sorted(set(n for _, n in fields))
        for body in prog.bodies.values():
            if body.impl_trait != "socket::ISocket" or body.name != "recv" or not body.kind.startswith("coroutine"):
                continue
            sock = short(body.impl_self or "?")
            # receives from an ingress queue?
            reach = prog.reach([strip_generics(body.path)])
            gets_batches = any(re.search(r"IngressEngine::(recv_logical_message|pop|recv_multipart|recv)$|recv_logical_finalized|recv_complete_request", t) for t in reach)
            if not gets_batches:
                r.note("%s: %s::recv does not read an ingress queue - no obligation" % (cfg, sock))
                continue
            key = "%s::recv|keeps tail" % sock
            stores = False
            for t in reach:
                tb = prog.body(t)
                if tb is None or "socket::" not in t:
                    continue
                if stash_writes(tb, names) or (tb.impl_self and "AnonymousIngressEngine" in tb.impl_self and tb.name == "recv"):
                    stores = True
                    break
            if stores:
                r.ok(cfg, key, where(body, 0), "remaining frames go to a stash")
            else:
                r.bad(cfg, key, where(body, 0), "recv() takes a whole batch from the ingress queue, returns one frame and has no stash: the remaining frames of a multipart message are dropped")
        r.require(cfg, 6, "recv implementations reading an ingress queue (PULL, SUB, DEALER, ROUTER, REP, REQ)")


def run(chk):
    chk.undecided = ["contiguity under all attach/detach interleavings beyond R1", "flag correctness for every message shape (value-level)"]
    r1_who_clears_stash(chk)
    r2_more_normalisation(chk)
    r4_only_complete_batches(chk)
    r5_recv_keeps_tail(chk)
