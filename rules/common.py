"""Analyses shared by several properties."""
import re
from collections import defaultdict

from vlib.util import where, short, is_plumbing, field_key
from vlib.mir import strip_generics


# --------------------------------------------------------------------------
# T6: check-then-wait on tokio::sync::Notify
# --------------------------------------------------------------------------
def notify_inventory(prog):
    """returns (classes, waiters, wakers): notifier field-name -> class id (aliases through struct construction),
    lists of Call"""
    notify_fields = set()
    for path, a in prog.facts.adts.items():
        for v in a["variants"]:
            for f in v["fields"]:
                if "tokio::sync::Notify" in f["ty"]:
                    notify_fields.add(f["name"])
    parent = {f: f for f in notify_fields}

    def find(x):
        parent.setdefault(x, x)
        while parent[x] != x:
            parent[x] = parent[parent[x]]
            x = parent[x]
        return x

    def union(a, b):
        ra, rb = find(a), find(b)
        if ra != rb:
            parent[ra] = rb

    # struct construction `S { f: other.g.clone() }` aliases f and g
    for b in prog.bodies.values():
        for _, _, st in b.aggregates():
            rv = st["r"]
            if rv.get("ak") != "adt":
                continue
            for fname, o in zip(rv.get("fields", []), rv["ops"]):
                if fname in notify_fields and o["c"] in ("copy", "move"):
                    src = field_key(b.provenance(o))
                    if src in notify_fields and src != fname:
                        union(fname, src)
    waiters, wakers = [], []
    for c in prog.all_calls():
        if c.is_("tokio::sync::Notify::notified"):
            waiters.append(c)
        elif c.is_("tokio::sync::Notify::notify_waiters", "tokio::sync::Notify::notify_one", "tokio::sync::Notify::notify_last"):
            wakers.append(c)
    return find, waiters, wakers


_constructed_cache = {}


def type_is_constructed(prog, ty):
    """is ADT `ty` (rendered self type, maybe with generics) constructed by code that is called from outside its own impl?"""
    key = (id(prog), ty)
    if key in _constructed_cache:
        return _constructed_cache[key]
    adt = strip_generics(ty).split("<")[0]
    makers = []
    for b in prog.bodies.values():
        for _, _, st in b.aggregates():
            if st["r"].get("adt") == adt:
                makers.append(b)
                break
    live = False
    for m in makers:
        if m.impl_self is None or strip_generics(m.impl_self).split("<")[0] != adt:
            live = True
            break
        for caller in prog.callers.get(strip_generics(m.path), ()):
            cb = prog.body(caller)
            if cb is not None and (cb.impl_self is None or strip_generics(cb.impl_self).split("<")[0] != adt):
                live = True
                break
        if live:
            break
    _constructed_cache[key] = live
    return live


def classify_waiter(body, n):
    """'enabled' | 'no-check' | 'check-then-wait:direct' | 'check-then-wait:raced'"""
    fut_prov = "tokio::sync::Notify::notified("
    # enable() on this future, dominated by the creation
    for c in body.calls:
        if c.matches(r"Notified.*::enable$") and body.dominates(n.blk, c.blk):
            org = body.provenance(c.args[0])
            if fut_prov in org:
                return "enabled", c
    # a decision that dominates the creation and has an exit that avoids it
    decision = None
    for s in body.dominators(n.blk):
        if s == n.blk:
            continue
        t = body.term(s)
        if t["k"] != "switch" or is_plumbing(t):
            continue
        a, _ = body.cond_atom(t["d"])
        if a[0] == "const":
            continue
        if a[0] == "discr" and a[2].startswith("std::task::Poll<"):
            continue
        if (t.get("exp") or "").find("select") >= 0:
            continue
        for tb, lab in body.edges(s):
            r = body.reachable([tb], avoid_blocks=[n.blk])
            if any(body.term(x)["k"] == "return" for x in r) and n.blk not in r:
                # this edge leaves without ever waiting: the switch decides "no need to wait"
                decision = s
                break
        if decision is not None:
            break
    if decision is None:
        return "no-check", None
    # direct await?
    for aw in body.awaits():
        ac = body.awaited_call(aw)
        if ac is not None and ac.blk == n.blk:
            return "check-then-wait:direct", decision
    return "check-then-wait:raced", decision


def rule_check_then_wait(chk, r, only_fields=None, raced_table=None):
    """T6.  `only_fields`: restrict to notifier classes containing one of these field names.
    raced_table: {(short body path, field): reason} sites not judged (raced with another wake source)."""
    raced_table = raced_table or {}
    for cfg, prog in chk.configs():
        find, waiters, wakers = notify_inventory(prog)
        nw_classes = defaultdict(list)
        for w in wakers:
            if w.name == "notify_waiters":
                nw_classes[find(field_key(w.body.provenance(w.args[0])))].append(w)
        for n in waiters:
            body = n.body
            fk = field_key(body.provenance(n.args[0]))
            cls = find(fk)
            if only_fields is not None and not any(find(f) == cls for f in only_fields):
                continue
            key = "%s|wait on %s" % (short(body.path), fk)
            if cls not in nw_classes:
                r.ok(cfg, key, where(body, n.blk), "all wakers of this notifier store a permit (notify_one)")
                continue
            # type reachable? (never-constructed types are listed, not judged)
            if body.impl_self and not type_is_constructed(prog, body.impl_self):
                r.note("%s: %s not judged: type %s is never constructed outside its own impl (dead code)" % (cfg, key, body.impl_self))
                continue
            kind, info = classify_waiter(body, n)
            wk = ", ".join(sorted(set(short(w.body.path) for w in nw_classes[cls])))
            if kind == "enabled":
                r.ok(cfg, key, where(body, n.blk), "Notified future is enable()d right after creation, before the condition is re-checked (accepted idiom); notify_waiters wakers: " + wk)
            elif kind == "no-check":
                r.ok(cfg, key, where(body, n.blk), "no condition check dominates the creation of the Notified future")
            elif kind == "check-then-wait:raced":
                if (short(body.path), fk) in raced_table:
                    r.note("%s: %s not judged: %s" % (cfg, key, raced_table[(short(body.path), fk)]))
                    r.ok(cfg, key + " (raced, listed)", where(body, n.blk), raced_table[(short(body.path), fk)])
                else:
                    r.bad(cfg, key, where(body, n.blk),
                          "condition checked (bb%s), THEN a Notified future is created and raced in a select/timeout, and the waker is notify_waiters() (%s), which wakes only registered waiters: a wake-up between check and registration is lost; site is not in the reviewed table" % (info, wk))
            else:
                r.bad(cfg, key, where(body, n.blk),
                      "check-then-wait: the condition is evaluated (bb%s), then `notified()` is created and awaited as the only wake source, but the waker uses notify_waiters() (%s) which stores no permit: a notification between the check and the await is lost and the task sleeps although the condition holds" % (info, wk))


# ---------------------------------------------------------------------------
# re-entry gates of the byte-driven handlers (used by C04 R2 and C05 R5)
# ---------------------------------------------------------------------------
def _bare_return(body, b, limit=12):
    """does block b lead to the function's return through gotos/drops only (an early `return;`)?"""
    for _ in range(limit):
        t = body.term(b)
        if t["k"] == "return":
            return True
        if t["k"] in ("goto", "drop") and not body.blocks[b]["cleanup"]:
            b = t["t"]
            continue
        return False
    return False


def _gate_field(body, s):
    """`self.<field>` tested by switch s (bool flag, Option::is_none/is_some, or enum discriminant), else None"""
    a, _ = body.switch_atom(s)
    path = None
    if a[0] == "place":
        path = a[1]
    elif a[0] == "discr":
        path = a[1]
    elif a[0] == "call" and a[1].name in ("is_none", "is_some") and a[1].args:
        path = body.provenance(a[1].args[0])
    if path and re.match(r"^self\.\w+$", path):
        return path
    return None


def rule_gate_closes_after_stage(chk, r, body_rx, acc_rx, floor):
    """In a handler that is re-entered as more bytes arrive, a stage guarded by a gate on self.<F> must not close the gate
    (assign self.<F>) and afterwards, still inside the stage, return early for lack of bytes: on re-entry the gate is
    closed, the rest of the stage is skipped and the handler waits for ever (or takes the wrong branch)."""
    for cfg, prog in chk.configs():
        n = 0
        for body in prog.find_bodies(body_rx):
            if body.kind not in ("fn", "assoc_fn"):
                continue
            for s in range(body.n):
                if body.term(s)["k"] != "switch" or body.blocks[s]["cleanup"]:
                    continue
                f = _gate_field(body, s)
                if not f:
                    continue
                t = body.term(s)
                for lab, tgt in [(v, x) for v, x in t["targets"]] + [("otherwise", t["otherwise"])]:
                    region = set(b for b in body.reachable([tgt]) if body.edge_dominates(s, lab, b))
                    if not region:
                        continue
                    writes = [b for b, i, st in body.statements() if b in region and st["k"] == "assign" and body.place_path(st["p"]) == f]
                    if not writes:
                        continue
                    n += 1
                    key = "%s|gate %s closes only when its stage is done" % (short(body.path), f)
                    bad = None
                    for w in writes:
                        after = body.reachable([w]) & region
                        for s2 in sorted(after):
                            t2 = body.term(s2)
                            if t2["k"] != "switch" or s2 == s:
                                continue
                            a2, _ = body.switch_atom(s2)
                            if a2[0] != "cmp" or a2[1] not in ("Lt", "Le", "Gt", "Ge"):
                                continue
                            sides = body.provenance(a2[2]) + " " + body.provenance(a2[3])
                            if "len(" not in sides or not re.search(acc_rx, sides):
                                continue
                            for lab2, tgt2 in [(v, x) for v, x in t2["targets"]] + [("otherwise", t2["otherwise"])]:
                                if _bare_return(body, tgt2):
                                    bad = (w, s2)
                    if bad:
                        r.bad(cfg, key, where(body, bad[0]), "%s is assigned at %s and the stage then returns early at %s when too few bytes have arrived: the next read re-enters with the gate already closed, skips the rest of the stage, and the handshake depends on where the transport cut the stream" % (
                            f, next((st.get("sp", "?").split("/")[-1] for st in body.blocks[bad[0]]["st"] if st["k"] == "assign" and body.place_path(st["p"]) == f), "?"), body.term(bad[1])["sp"].split("/")[-1]))
                    else:
                        r.ok(cfg, key, where(body, writes[0]), "no need-more-bytes return follows the gate's assignment inside the gated stage")
        r.require(cfg, floor, "gated stages in byte-driven handlers")


# ---------------------------------------------------------------------------
# atomic check-then-act (used by C08 R4, C12 R5)
# ---------------------------------------------------------------------------
ATOMIC_RMW = ("fetch_add", "fetch_sub", "store", "fetch_or", "fetch_and", "fetch_max", "fetch_min")


def rule_no_atomic_check_then_act(chk, r, path_rx, reviewed=None, floor_atomics=1):
    """In the bodies matching path_rx: a read-modify-write (or store) of an atomic that is decided by a plain load() of the
    same atomic earlier in the function is a lost-update window (two tasks both pass the load, both write) unless the update
    validates itself (swap / compare_exchange / fetch_update) or is listed in `reviewed` ({(short body, field): reason})."""
    reviewed = reviewed or {}
    for cfg, prog in chk.configs():
        n_atomic_ops = 0
        for b in prog.bodies.values():
            if "::tests" in b.path or not re.search(path_rx, strip_generics(b.path)):
                continue
            ops = [c for c in b.calls if "Atomic" in c.callee and c.name in ATOMIC_RMW + ("load", "swap", "compare_exchange", "compare_exchange_weak", "fetch_update")]
            n_atomic_ops += len(ops)
            loads = [c for c in ops if c.name == "load"]
            for w in ops:
                if w.name not in ATOMIC_RMW:
                    continue
                fld = w.recv()
                deciding = None
                for g in b.guards(w.blk, select_aware=False):
                    a = g.atom
                    srcs = []
                    if a[0] == "cmp":
                        srcs = [b.value_origin(a[2]), b.value_origin(a[3])]
                    elif a[0] == "call":
                        srcs = [("call", a[1])]
                    for org in srcs:
                        if org[0] == "call" and org[1].name == "load" and "Atomic" in org[1].callee and org[1].recv() == fld:
                            deciding = org[1]
                if deciding is None:
                    continue
                key = "%s|%s on %s decided by an earlier load" % (short(b.path), w.name, field_key(fld or "?"))
                rk = (short(b.path), field_key(fld or "?"))
                if rk in reviewed:
                    r.ok(cfg, key, where(b, w.blk), "reviewed: " + reviewed[rk])
                else:
                    r.bad(cfg, key, where(b, w.blk), "%s(%s) is executed because a separate load() at %s returned a particular value; between the two another task can change the counter (both pass the check, both update): use the value returned by the read-modify-write itself, or compare_exchange / fetch_update" % (w.name, fld, deciding.sp.split("/")[-1]))
        r.note("atomic operations inspected in %s: %d" % (cfg, n_atomic_ops))
        if n_atomic_ops < floor_atomics:
            r.bad(cfg, "floor|atomic operations", "-", "only %d atomic operations found in the scoped bodies (%d on the pinned tree): anchor moved" % (n_atomic_ops, floor_atomics))
