"""C06 — a configured security mechanism cannot be bypassed or downgraded.

Decides the control-flow gates of the ZMTP engine's phase machine (which phase
assignments are reachable under which guards) and the mechanism typestate
assignments; not the cryptography."""
import re

from vlib.util import where, short, is_plumbing

PHASE_ADT = "protocol::zmtp::engine::ZmtpPhase"


def phase_assignments(body):
    """[(block, stmt_index, variant)] for `self.phase = ZmtpPhase::X`"""
    out = []
    for b, i, st in body.statements():
        if st["k"] != "assign":
            continue
        p = st["p"]
        if not p["pr"] or p["pr"][-1][0] != "field" or p["pr"][-1][2] != "phase" or p["ty"] != PHASE_ADT:
            continue
        rv = st["r"]
        if rv["k"] == "use":
            org = body.value_origin(rv["o"])
            if org[0] == "agg" and org[1]["r"].get("adt") == PHASE_ADT:
                out.append((b, i, org[1]["r"]["variant"]))
            else:
                out.append((b, i, "?"))
        elif rv["k"] == "agg" and rv.get("adt") == PHASE_ADT:
            out.append((b, i, rv["variant"]))
    return out


def phase_variant_index(prog, name):
    a = prog.facts.adts.get(PHASE_ADT)
    for i, v in enumerate(a["variants"]):
        if v["name"] == name:
            return i
    return None


def guarded_by_place(body, blk, field_rx, truth, prog=None):
    for g in body.guards(blk, select_aware=False):
        if g.atom[0] == "place" and re.search(field_rx, g.atom[1]) and g.truth is truth:
            return g
    if prog is None:
        return None
    # one level of summarisation: the block lies on the "no refusal" edge (None / Ok) of a crate-local helper that refuses
    # (returns Some(err) / Err) whenever the field has the other value
    for g in body.guards(blk, select_aware=False):
        if g.atom[0] != "discr" or not g.is_value(0, 2) or not re.search(r"^std::(option::Option|result::Result|ops::ControlFlow)<", g.atom[2]):
            continue
        org = body.value_origin({"c": "copy", "p": g.atom[3]}) if not g.atom[3]["pr"] else ("place", None)
        call = org[1] if org[0] == "call" else None
        if call is not None and call.declared.endswith("ops::Try::branch") and call.args:
            o2 = body.value_origin(call.args[0])
            call = o2[1] if o2[0] == "call" else None
        h = prog.body(call.callee) if call is not None else None
        if h is None:
            continue
        for s in range(h.n):
            t = h.term(s)
            if t["k"] != "switch":
                continue
            a, pol = h.switch_atom(s)
            if a[0] != "place" or not re.search(field_rx, a[1]):
                continue
            for tb, lab in h.edges(s):
                gg = __import__("vlib.mir", fromlist=["Guard"]).Guard(h, s, lab)
                if gg.truth is None or gg.truth is truth:
                    continue
                # edge on which the field has the refused value: it must not be able to produce the no-refusal result
                reach = h.reachable([tb])
                lets_through = False
                for bb, i, st in h.aggregates():
                    if bb in reach and st["r"].get("variant") in ("None", "Ok") and st["p"]["l"] == 0:
                        lets_through = True
                if not lets_through:
                    return g
    return None


def guarded_by_call(body, blk, rx, truth):
    for g in body.guards(blk, select_aware=False):
        if g.atom[0] == "call" and g.atom[1].matches(rx) and g.truth is truth:
            return g
    return None


def guarded_by_phase(body, blk, vidx):
    for g in body.guards(blk, select_aware=False):
        if g.atom[0] == "discr" and g.atom[2] == PHASE_ADT and g.atom[1].endswith(".phase") and g.is_value(vidx, 6):
            return g
    return None


def engine_bodies(prog):
    return [b for b in prog.bodies.values() if b.impl_self == "protocol::zmtp::engine::ZmtpEngine" and "::tests" not in b.path]


def run(chk):
    chk.undecided = ["soundness of the cryptographic handshakes (PLAIN compare, CURVE, Noise)", "attacker grammars beyond the control-flow gates"]
    r1 = chk.rule("R1", "the Data phase is reachable only through authentication", "T3 guarded-by",
                  "each assignment phase=V2Identity is dominated by `security_enabled == false`; each phase=Data is dominated by activate_pending_framer() (READY path) or lies behind the V2Identity gate")
    r2 = chk.rule("R2", "Ready requires a completed mechanism", "T3 guarded-by", "each assignment phase=Ready is dominated by the true edge of Mechanism::is_complete()")
    r3 = chk.rule("R3", "the negotiated framer is installed before Data", "T3 dominance", "pending_framer is derived before phase=Ready and activated before phase=Data on the READY path")
    r6 = chk.rule("R6", "delivery starts in Data", "T1 who-may-construct + T3", "AppAction::DeliverMessage is constructed only in the data-phase handler, which is entered only with phase == Data")
    r7 = chk.rule("R7", "token-phase errors are fatal", "T4 must-pass-through", "every Err from process_token/produce_token/is_error() leads to phase=Closed and a PeerError before returning")
    for cfg, prog in chk.configs():
        eng = engine_bodies(prog)
        if not eng:
            r1.bad(cfg, "anchor|ZmtpEngine", "-", "no ZmtpEngine bodies found")
            continue
        v_data = phase_variant_index(prog, "Data")
        v_v2 = phase_variant_index(prog, "V2Identity")
        by_variant = {}
        for b in eng:
            for blk, i, var in phase_assignments(b):
                by_variant.setdefault(var, []).append((b, blk))
        # ---------------- R1
        for b, blk in by_variant.get("V2Identity", []):
            key = "%s|phase=V2Identity" % short(b.path)
            if guarded_by_place(b, blk, r"\.security_enabled$", False, prog):
                r1.ok(cfg, key, where(b, blk), "dominated by security_enabled == false")
            else:
                r1.bad(cfg, key, where(b, blk), "the ZMTP/2.0 downgrade path sets phase=V2Identity without consulting config.security_enabled: a peer announcing revision 1 bypasses PLAIN/CURVE/Noise and its data is delivered unauthenticated")
        gate_bodies = set()
        for b, blk in by_variant.get("Data", []):
            key = "%s|phase=Data" % short(b.path)
            act = [c for c in b.calls if c.matches(r"ZmtpEngine::activate_pending_framer$") and b.dominates(c.blk, blk)]
            if act:
                # READY path: the body must only be entered in phase Ready -> checked through R2 (Ready assignments) and call sites
                r1.ok(cfg, key, where(b, blk), "READY path: activate_pending_framer() dominates")
                continue
            # v2 path: every call site of this body must be behind the V2Identity gate
            sites = [c for c in prog.all_calls() if c.callee == b.path.replace("::<S>", "") or c.callee == __import__("vlib.mir", fromlist=["x"]).strip_generics(b.path)]
            bad = []
            for c in sites:
                cb = c.body
                dom_assign = any(var == "V2Identity" and cb.dominates(ab, c.blk) for ab, _, var in phase_assignments(cb))
                if dom_assign or guarded_by_phase(cb, c.blk, v_v2):
                    continue
                bad.append(c)
            if sites and not bad:
                r1.ok(cfg, key, where(b, blk), "v2 path: all %d call sites are behind phase == V2Identity (whose assignment is checked above)" % len(sites))
            else:
                r1.bad(cfg, key, where(b, blk), "phase=Data assigned outside the READY path and the function is callable without the V2Identity gate (%s)" % [c.sp for c in bad])
        r1.require(cfg, 3, "phase=V2Identity (1) and phase=Data (2) assignments")
        # ---------------- R2 / R3
        for b, blk in by_variant.get("Ready", []):
            key = "%s|phase=Ready" % short(b.path)
            if guarded_by_call(b, blk, r"Mechanism::is_complete$", True):
                r2.ok(cfg, key, where(b, blk), "dominated by is_complete() == true")
            else:
                r2.bad(cfg, key, where(b, blk), "phase=Ready is reachable without Mechanism::is_complete() being true: READY would be accepted from an unauthenticated peer")
            # pending_framer stored from derive_pending_framer before Ready
            stores = []
            for sb, si, st in b.statements():
                if st["k"] == "assign" and st["p"]["pr"] and st["p"]["pr"][-1][0] == "field" and st["p"]["pr"][-1][2] == "pending_framer" and b.dominates(sb, blk):
                    stores.append(sb)
            derive = [c for c in b.calls if c.matches(r"ZmtpEngine::derive_pending_framer$") and b.dominates(c.blk, blk)]
            if stores and derive:
                r3.ok(cfg, key + "|pending_framer derived", where(b, blk))
            else:
                r3.bad(cfg, key + "|pending_framer derived", where(b, blk), "phase=Ready without storing the framer derived from the completed mechanism: the data phase would run on the plain framer")
        r2.require(cfg, 2, "phase=Ready assignments")
        for b, blk in by_variant.get("Data", []):
            if any(c.matches(r"ZmtpEngine::activate_pending_framer$") for c in b.calls):
                key = "%s|activate before Data" % short(b.path)
                if any(c.matches(r"ZmtpEngine::activate_pending_framer$") and b.dominates(c.blk, blk) for c in b.calls):
                    r3.ok(cfg, key, where(b, blk))
                else:
                    r3.bad(cfg, key, where(b, blk), "phase=Data not dominated by activate_pending_framer()")
        r3.require(cfg, 3, "framer hand-over obligations")
        # ---------------- R6
        makers = []
        for b in prog.bodies.values():
            if b.impl_trait == "std::clone::Clone" or "::tests" in b.path:
                continue
            for ab, ai, st in b.aggregates():
                if st["r"].get("adt", "").endswith("actions::AppAction") and st["r"].get("variant") == "DeliverMessage":
                    makers.append((b, ab))
        for b, ab in makers:
            key = "%s|constructs DeliverMessage" % short(b.path)
            if b.impl_self == "protocol::zmtp::engine::ZmtpEngine" and b.name == "process_data":
                r6.ok(cfg, key, where(b, ab))
            else:
                r6.bad(cfg, key, where(b, ab), "AppAction::DeliverMessage constructed outside the data-phase handler")
        for c in prog.all_calls():
            if c.callee == "protocol::zmtp::engine::ZmtpEngine::process_data" and "::tests" not in c.body.path:
                cb = c.body
                key = "%s|calls process_data" % short(cb.path)
                dom_assign = any(var == "Data" and cb.dominates(ab, c.blk) for ab, _, var in phase_assignments(cb))
                if dom_assign or guarded_by_phase(cb, c.blk, v_data):
                    r6.ok(cfg, key, where(cb, c.blk), "phase == Data established")
                else:
                    r6.bad(cfg, key, where(cb, c.blk), "the data-phase handler is called on a path where phase == Data is not established: frames sent before authentication finished would be delivered")
        r6.require(cfg, 4, "DeliverMessage constructor (1) + process_data call sites (3)")
        # ---------------- R7
        for b in eng:
            for c in b.calls:
                if not (c.trait == "security::mechanism::Mechanism" and c.name in ("process_token", "produce_token")):
                    continue
                key = "%s|%s Err is fatal" % (short(b.path), c.name)
                # Err edge of the discriminant of the call's result
                err_targets = []
                for s in range(b.n):
                    t = b.term(s)
                    if t["k"] != "switch":
                        continue
                    a, _ = b.cond_atom(t["d"])
                    if a[0] == "discr" and a[3]["l"] == c.dest["l"] and not a[3]["pr"] and a[2].startswith("std::result::Result<"):
                        err_targets += [tb for v, tb in t["targets"] if v == 1]
                if not err_targets:
                    r7.bad(cfg, key, where(b, c.blk), "result of the mechanism call is not matched")
                    continue
                closed = set(blk for blk, _, var in phase_assignments(b) if var == "Closed")
                failc = set(x.blk for x in b.calls if x.matches(r"ZmtpEngine::fail$"))
                reach = b.reachable(err_targets, avoid_blocks=closed | failc)
                if any(b.term(x)["k"] == "return" for x in reach):
                    r7.bad(cfg, key, where(b, c.blk), "an Err from the mechanism can return without phase=Closed: the handshake would continue after a failed authentication step")
                else:
                    r7.ok(cfg, key, where(b, c.blk), "every Err path assigns phase=Closed before returning")
            for c in b.calls:
                if c.trait == "security::mechanism::Mechanism" and c.name == "is_error":
                    key = "%s|is_error() is fatal" % short(b.path)
                    g_targets = []
                    for s in range(b.n):
                        t = b.term(s)
                        if t["k"] == "switch":
                            a, pol = b.cond_atom(t["d"])
                            if a[0] == "call" and a[1].blk == c.blk:
                                lab = b.bool_edge_label(s, True if pol else False)
                                g_targets += [tb for tb, l2 in b.edges(s) if l2 == lab]
                    closed = set(blk for blk, _, var in phase_assignments(b) if var == "Closed")
                    reach = b.reachable(g_targets, avoid_blocks=closed)
                    if g_targets and not any(b.term(x)["k"] == "return" for x in reach):
                        r7.ok(cfg, key, where(b, c.blk))
                    else:
                        r7.bad(cfg, key, where(b, c.blk), "is_error() == true can return without phase=Closed")
        r7.require(cfg, 3, "mechanism result sites in the engine")


# ---------------------------------------------------------------------------
# R5: mechanism typestate
# ---------------------------------------------------------------------------
def _field_assigns(body, field, adt_suffix):
    out = []
    for b, i, st in body.statements():
        if st["k"] != "assign" or not st["p"]["pr"] or st["p"]["pr"][-1][0] != "field" or st["p"]["pr"][-1][2] != field:
            continue
        rv = st["r"]
        var = None
        if rv["k"] == "use":
            org = body.value_origin(rv["o"])
            if org[0] == "agg" and org[1]["r"].get("adt", "").endswith(adt_suffix):
                var = org[1]["r"]["variant"]
        elif rv["k"] == "agg" and rv.get("adt", "").endswith(adt_suffix):
            var = rv["variant"]
        if var:
            out.append((b, var))
    return out


def r5_mechanism_typestate(chk, rid="R5"):
    r = chk.rule(rid, "a mechanism reports Ready only after its verification step succeeded", "T3 guarded-by",
                 "PLAIN: the server accepts (state=ServerSendWelcome) only under HELLO && expected_username.map_or(false, ==) && expected_password.map_or(false, ==); Ready is assigned only from ServerSendWelcome / on WELCOME. CURVE: status=Ready only after process_client_initiate()? / build_client_initiate()?. Noise: status=Ready only under is_handshake_finished()")
    for cfg, prog in chk.configs():
        # ---- PLAIN
        pt = prog.body("<security::plain::PlainMechanism as security::mechanism::Mechanism>::process_token")
        if pt is not None:
            acc = [b for b, v in _field_assigns(pt, "state", "plain::PlainState") if v == "ServerSendWelcome"]
            key = "PLAIN server|accepts only verified credentials"
            if len(acc) != 1:
                r.bad(cfg, key, where(pt, acc[0] if acc else 0), "expected exactly one transition to ServerSendWelcome in process_token, found %d" % len(acc))
            else:
                gs = pt.guards(acc[0], select_aware=False)
                # the configured credentials: the Option<Vec<u8>> fields of the mechanism that process_token never assigns
                # (the ones it does assign hold what the peer sent); found by type and use, not by name
                adt_p = prog.facts.adts.get("security::plain::PlainMechanism") or {"variants": []}
                opt_fields = [x["name"] for v in adt_p["variants"] for x in v["fields"] if re.search(r"Option<std::vec::Vec<u8", x["ty"])]
                assigned = set(st["p"]["pr"][-1][2] for _b, _i, st in pt.statements() if st["k"] == "assign" and st["p"]["pr"] and st["p"]["pr"][-1][0] == "field" and pt.place_path(st["p"]).startswith("self."))
                need = {f_: False for f_ in opt_fields if f_ not in assigned}
                if len(need) < 2:
                    need = {"<configured username>": False, "<configured password>": False}
                # `a && b` is lowered to a bool local assigned `false` on the short-circuit edge and `b` otherwise:
                # a guard `local == true` therefore implies its non-constant definitions and their own guards
                calls_true = [g.atom[1] for g in gs if g.atom[0] == "call" and g.truth is True]
                for g in gs:
                    if g.atom[0] == "place" and g.truth is True and not g.atom[2]["pr"]:
                        for d in pt.whole_defs(g.atom[2]["l"]):
                            if d[0] == "call":
                                dc = __import__("vlib.mir", fromlist=["Call"]).Call(pt, d[1], d[3])
                                calls_true.append(dc)
                                calls_true += [g2.atom[1] for g2 in pt.guards(d[1], select_aware=False) if g2.atom[0] == "call" and g2.truth is True]
                            elif d[0] == "assign" and d[3]["r"]["k"] == "use" and d[3]["r"]["o"].get("int") == 1:
                                need = {k_: False for k_ in need}
                                calls_true = []
                                break
                for c in calls_true:
                    if c.name == "map_or":
                        recv = pt.provenance(c.args[0])
                        dflt = pt.const_int(c.args[1]) if len(c.args) > 1 else None
                        for f in need:
                            if re.search(r"self\.%s\b" % re.escape(f), recv) and dflt == 0:
                                # the closure compares with a value parsed from the HELLO body (a call result), not with another field of self
                                clo = pt.value_origin(c.args[2]) if len(c.args) > 2 else ("?",)
                                caps = [pt.provenance(o) for o in clo[1]["r"]["ops"]] if clo[0] == "agg" else []
                                if caps and all(not x.startswith("self.") for x in caps) and any("(" in x for x in caps):
                                    need[f] = True
                hello = any(g.atom[0] == "call" and g.atom[1].name in ("eq",) and g.truth is True and "CMD_HELLO" in " ".join(pt.provenance(a) + (a.get("item") or "") for a in g.atom[1].args) for g in gs)
                srv = any(g.atom[0] == "place" and g.atom[1].endswith(".is_server") and g.truth is True for g in gs)
                if all(need.values()) and hello and srv:
                    r.ok(cfg, key, where(pt, acc[0]), "is_server && HELLO && both map_or(false, |x| x == received)")
                else:
                    miss = [f for f, v in need.items() if not v] + ([] if hello else ["HELLO command test"]) + ([] if srv else ["is_server"])
                    r.bad(cfg, key, where(pt, acc[0]), "the PLAIN server can accept a HELLO without %s: a peer with wrong (or no) credentials completes the mechanism" % ", ".join(miss))
            for body in (pt, prog.body("<security::plain::PlainMechanism as security::mechanism::Mechanism>::produce_token")):
                if body is None:
                    continue
                for b, v in _field_assigns(body, "state", "plain::PlainState"):
                    if v != "Ready":
                        continue
                    key = "PLAIN|Ready assigned in %s" % body.name
                    gs = body.guards(b, select_aware=False)
                    st_guard = [g for g in gs if g.atom[0] == "discr" and g.atom[2].endswith("plain::PlainState")]
                    adt = prog.facts.adts.get("security::plain::PlainState")
                    names = [x["name"] for x in adt["variants"]] if adt else []
                    from_state = [names[g.label] for g in st_guard if isinstance(g.label, int) and g.label < len(names)]
                    ok = ("ServerSendWelcome" in from_state) if body.name == "produce_token" else ("ClientExpectWelcome" in from_state and any(g.atom[0] == "call" and g.atom[1].name == "eq" and g.truth is True and "CMD_WELCOME" in " ".join(body.provenance(a) + (a.get("item") or "") for a in g.atom[1].args) for g in gs))
                    (r.ok if ok else r.bad)(cfg, key, where(body, b), *(["from %s" % from_state] if ok else ["PlainState::Ready is assigned from state(s) %s without the expected precondition (server: after ServerSendWelcome; client: on WELCOME while ClientExpectWelcome)" % from_state]))
        # ---- CURVE
        for nm, need_call in (("process_token", r"CurveHandshake::process_client_initiate$"), ("produce_token", r"CurveHandshake::build_client_initiate$")):
            body = prog.body("<security::curve::mechanism::CurveMechanism as security::mechanism::Mechanism>::" + nm)
            if body is None:
                continue
            for b, v in _field_assigns(body, "status", "MechanismStatus"):
                if v != "Ready":
                    continue
                key = "CURVE|status=Ready in %s only after the step succeeded" % nm
                ok = False
                for g in body.guards(b, select_aware=False):
                    if g.atom[0] == "discr" and g.atom[2].startswith("std::ops::ControlFlow<") and g.is_value(0) and re.search(need_call.rstrip("$"), g.atom[1]):
                        ok = True
                (r.ok if ok else r.bad)(cfg, key, where(body, b), *([] if ok else ["MechanismStatus::Ready is assigned without the `?`-success of %s dominating it: an INITIATE that fails verification would still complete the mechanism" % need_call.split("::")[-1].rstrip("$")]))
        # ---- Noise
        for body in prog.bodies.values():
            if body.impl_self != "security::noise_xx::NoiseXxMechanism" or body.kind == "closure":
                continue
            for b, v in _field_assigns(body, "current_status", "MechanismStatus"):
                if v != "Ready":
                    continue
                key = "NOISE_XX|status=Ready in %s under is_handshake_finished" % body.name
                ok = any(g.atom[0] == "call" and g.atom[1].name == "is_handshake_finished" and g.truth is True for g in body.guards(b, select_aware=False))
                (r.ok if ok else r.bad)(cfg, key, where(body, b), *([] if ok else ["Ready assigned without snow's is_handshake_finished() being true"]))
        floor = {"default": 3, "noplain": 0, "full": 6, "full-linux": 6}.get(cfg, 0)
        r.require(cfg, floor, "mechanism Ready/accept assignments")


_run_base = run


def run(chk):  # noqa: F811
    _run_base(chk)
    r5_mechanism_typestate(chk)


# ---------------------------------------------------------------------------
# R4: NULL is negotiable only when no security mechanism is configured
# ---------------------------------------------------------------------------
def _fnptr_target(body, o):
    """the function/closure a fn-pointer operand was coerced from: ('fn', path) | ('closure', path) | None"""
    org = body.value_origin(o)
    if org[0] == "other" and isinstance(org[1], dict) and org[1].get("k") == "cast":
        o2 = org[1]["o"]
        if o2["c"] == "const" and "fn" in o2:
            return ("fn", o2["fn"]["path"])
        org2 = body.value_origin(o2)
        if org2[0] == "agg" and org2[1]["r"].get("ak") == "closure":
            return ("closure", org2[1]["r"].get("def"))
        if org2[0] == "const" and "fn" in org2[1]:
            return ("fn", org2[1]["fn"]["path"])
    if org[0] == "const" and "fn" in org[1]:
        return ("fn", org[1]["fn"]["path"])
    return None


def _bool_support(body, o, depth=0):
    """fields a boolean value is the disjunction of: (set of place paths, may_be_const_true, ok)"""
    if o["c"] == "const":
        v = o.get("int")
        return (set(), v == 1, v in (0, 1))
    if o["c"] not in ("copy", "move") or depth > 8:
        return (set(), False, False)
    p = o["p"]
    if p["pr"]:
        return ({body.place_path(p)}, False, True)
    ds = body.whole_defs(p["l"])
    if len(ds) != 1 or ds[0][0] != "assign":
        return (set(), False, False)
    rv = ds[0][3]["r"]
    if rv["k"] == "use":
        return _bool_support(body, rv["o"], depth + 1)
    if rv["k"] == "binop" and rv["op"] == "BitOr":
        a = _bool_support(body, rv["a"], depth + 1)
        b = _bool_support(body, rv["b"], depth + 1)
        return (a[0] | b[0], a[1] or b[1], a[2] and b[2])
    return (set(), False, False)


def r4_null_only_without_security(chk):
    r = chk.rule("R4", "NULL is negotiable only when no security mechanism is configured", "T9 table agreement + T3 guarded-by",
                 "KNOWN_MECHANISMS: the NULL row's is_locally_enabled is `!cfg.security_enabled`, every other row's is `cfg.use_<m>` with initializer initialize_<m>; "
                 "ZmtpEngineConfig::from(&SocketOptions) makes security_enabled the disjunction of every use_<m> source flag; "
                 "negotiate_security_mechanism calls a row's initializer only on the true edges of name equality and of that row's is_locally_enabled(local_config)")
    for cfg, prog in chk.configs():
        rows = []
        for tb in prog.find_bodies(r"^security::KNOWN_MECHANISMS::promoted\[\d+\]$"):
            for b, i, st in tb.aggregates():
                if st["r"].get("adt", "").endswith("security::KnownMechanismDescriptor"):
                    rows.append((tb, b, st))
        if not rows:
            r.bad(cfg, "KNOWN_MECHANISMS|table found", "core/src/security/mod.rs", "no KnownMechanismDescriptor rows found in the promoted constant of security::KNOWN_MECHANISMS (anchor missing)")
            continue
        adt = prog.facts.adts.get("security::KnownMechanismDescriptor")
        fnames = [f["name"] for f in adt["variants"][0]["fields"]] if adt else []
        use_fields = {}
        null_rows = 0
        for tb, b, st in rows:
            ops = dict(zip(fnames, st["r"]["ops"]))
            nm = tb.const_name(ops.get("name_static_bytes", {})) or ""
            init = _fnptr_target(tb, ops["initializer"]) if "initializer" in ops else None
            pred = _fnptr_target(tb, ops["is_locally_enabled"]) if "is_locally_enabled" in ops else None
            m = re.search(r"security::(\w+)::(?:\w+::)*(\w+)::NAME_BYTES$", nm)
            mech = m.group(1) if m else "?"
            key = "KNOWN_MECHANISMS[%s]|predicate and initializer agree with the row" % mech
            pb = prog.body(pred[1]) if pred else None
            if not m or init is None or pb is None:
                r.bad(cfg, key, where(tb, b), "row not understood (name=%s initializer=%s predicate=%s)" % (nm, init, pred))
                continue
            # what the predicate returns
            rets = pb.whole_defs(0)
            shape = None
            if len(rets) == 1 and rets[0][0] == "assign" and not pb.calls:
                rv = rets[0][3]["r"]
                if rv["k"] == "unop" and rv["op"] == "Not":
                    s = _bool_support(pb, rv["o"])
                    if s[2] and len(s[0]) == 1 and not s[1]:
                        shape = ("not", next(iter(s[0])))
                elif rv["k"] == "use":
                    s = _bool_support(pb, rv["o"])
                    if s[2] and len(s[0]) == 1 and not s[1]:
                        shape = ("is", next(iter(s[0])))
            if mech == "null":
                null_rows += 1
                if shape and shape[0] == "not" and shape[1].endswith(".security_enabled") and init[1].endswith("::initialize_null"):
                    r.ok(cfg, key, where(tb, b), "NULL: enabled = !cfg.security_enabled, initializer initialize_null")
                else:
                    r.bad(cfg, key, where(pb, 0), "the NULL row must be enabled exactly when `!cfg.security_enabled` (found %s, initializer %s): NULL could be negotiated although a mechanism is configured" % (shape, init[1]))
            else:
                want = ".use_" + mech
                if shape and shape[0] == "is" and shape[1].endswith(want) and init[1].endswith("::initialize_" + mech):
                    r.ok(cfg, key, where(tb, b), "%s: enabled = cfg.use_%s, initializer initialize_%s" % (mech, mech, mech))
                    use_fields["use_" + mech] = None
                else:
                    r.bad(cfg, key, where(pb, 0), "row %s: predicate %s / initializer %s do not belong to this mechanism" % (mech, shape, init[1]))
        if null_rows != 1:
            r.bad(cfg, "KNOWN_MECHANISMS|exactly one NULL row", "core/src/security/mod.rs", "%d NULL rows" % null_rows)
        # ---- the config: security_enabled covers every use_<m> source
        fb = prog.body("<socket::options::ZmtpEngineConfig as std::convert::From<&socket::options::SocketOptions>>::from")
        key = "ZmtpEngineConfig::from|security_enabled is the disjunction of every mechanism flag"
        if fb is None:
            r.bad(cfg, key, "core/src/socket/options.rs", "From<&SocketOptions> for ZmtpEngineConfig not found (anchor missing)")
        else:
            cadt = prog.facts.adts.get("socket::options::ZmtpEngineConfig")
            cf = [f["name"] for f in cadt["variants"][0]["fields"]] if cadt else []
            aggs = [(b, st) for b, i, st in fb.aggregates() if st["r"].get("adt", "").endswith("options::ZmtpEngineConfig")]
            if len(aggs) != 1:
                r.bad(cfg, key, where(fb, 0), "expected one ZmtpEngineConfig literal, found %d" % len(aggs))
            else:
                ab, ast = aggs[0]
                ops = dict(zip(cf, ast["r"]["ops"]))
                srcs = {}
                bad = []
                for uf in [f for f in cf if f.startswith("use_")]:
                    s = _bool_support(fb, ops[uf])
                    if s[2] and len(s[0]) == 1 and not s[1]:
                        srcs[uf] = next(iter(s[0]))
                    else:
                        bad.append("%s is not a plain copy of one option flag" % uf)
                for uf in use_fields:
                    if uf not in srcs:
                        bad.append("the table consults cfg.%s but the config literal has no such flag" % uf)
                E = set(v for k_, v in srcs.items() if k_ in use_fields)
                se = ops.get("security_enabled")
                if se is None:
                    bad.append("no security_enabled field")
                else:
                    # every definition of the value: its disjuncts plus the flags known false on the way there must cover E
                    defs = []
                    if se["c"] in ("copy", "move") and not se["p"]["pr"]:
                        l = se["p"]["l"]
                        ds = fb.whole_defs(l)
                        while len(ds) == 1 and ds[0][0] == "assign" and ds[0][3]["r"]["k"] == "use" and ds[0][3]["r"]["o"]["c"] in ("copy", "move") and not ds[0][3]["r"]["o"]["p"]["pr"]:
                            l = ds[0][3]["r"]["o"]["p"]["l"]
                            ds = fb.whole_defs(l)
                        for d in ds:
                            if d[0] != "assign":
                                bad.append("security_enabled is computed by a call (not understood)")
                                continue
                            rv = d[3]["r"]
                            s = _bool_support(fb, rv["o"]) if rv["k"] == "use" else (_bool_support(fb, {"c": "copy", "p": d[3]["p"]}) if rv["k"] == "binop" else (set(), False, False))
                            if rv["k"] == "binop":
                                a = _bool_support(fb, rv["a"])
                                b2 = _bool_support(fb, rv["b"])
                                s = (a[0] | b2[0], a[1] or b2[1], a[2] and b2[2] and rv["op"] == "BitOr")
                            if not s[2]:
                                bad.append("a definition of security_enabled is not a disjunction of option flags")
                                continue
                            if s[1]:
                                continue  # constant true: NULL is refused, the safe side
                            known_false = set()
                            for g in fb.guards(d[1], select_aware=False):
                                if g.atom[0] == "place" and g.truth is False:
                                    known_false.add(g.atom[1])
                                elif g.atom[0] == "rvalue" and g.atom[1].get("k") == "binop" and g.atom[1].get("op") == "BitOr" and g.truth is False:
                                    for side in (g.atom[1]["a"], g.atom[1]["b"]):
                                        ss = _bool_support(fb, side)
                                        if ss[2]:
                                            known_false |= ss[0]
                            missing = E - s[0] - known_false
                            if missing:
                                bad.append("security_enabled can be false while %s is set" % ", ".join(sorted(missing)))
                    else:
                        s = _bool_support(fb, se)
                        if not s[2] or (not s[1] and E - s[0]):
                            bad.append("security_enabled does not cover %s" % ", ".join(sorted(E - s[0])))
                if bad:
                    r.bad(cfg, key, where(fb, ab), "; ".join(bad) + ": with that mechanism enabled the NULL row still reports itself enabled, so a peer proposing NULL gets an unauthenticated session")
                else:
                    r.ok(cfg, key, where(fb, ab), "flags: %s" % ", ".join(sorted(E)))
        # ---- negotiation uses the row's own predicate and the peer's proposed name
        nb = prog.body("security::negotiate_security_mechanism")
        key = "negotiate_security_mechanism|initializer only for a matching, locally enabled row"
        if nb is None:
            r.bad(cfg, key, "core/src/security/mod.rs", "negotiate_security_mechanism not found (anchor missing)")
            continue
        inits = [c for c in nb.calls if c.kind != "def" and nb.opath(c.t["f"]["o"]).endswith(".initializer")] if True else []
        if len(inits) != 1:
            r.bad(cfg, key, where(nb, 0), "expected one call through `.initializer`, found %d" % len(inits))
            continue
        ic = inits[0]
        row = nb.opath(ic.t["f"]["o"])[: -len(".initializer")]
        en = nm_ok = False
        for g in nb.guards(ic.blk, select_aware=False):
            if g.atom[0] != "call" or g.truth is not True:
                continue
            gc = g.atom[1]
            if gc.kind != "def" and nb.opath(gc.t["f"]["o"]) == row + ".is_locally_enabled" and gc.args and "local_config" in nb.provenance(gc.args[0]):
                en = True
            if gc.name == "eq":
                pv = " ".join(nb.provenance(a) for a in gc.args)
                if row + ".name_static_bytes" in pv and "peer_greeting.mechanism" in pv:
                    nm_ok = True
        if not nm_ok:
            # the row may have been selected by `iter().find(|d| d.name_static_bytes == <peer's proposal>)`: the equality sits in the closure
            sl = nb.data_slice(ic.t["f"]["o"])
            if any(x[0] == "call" and re.search(r"Iterator>?::find$", x[1]) for x in sl):
                for c2 in nb.calls:
                    if not re.search(r"Iterator>?::find$", c2.callee) or len(c2.args) < 2:
                        continue
                    org = nb.value_origin(c2.args[1])
                    cl = org[1]["r"].get("def") if org[0] == "agg" else None
                    cb = prog.bodies.get(cl) if cl else None
                    if cb is None:
                        continue
                    caps = " ".join(nb.provenance(o) for o in org[1]["r"]["ops"])
                    for e in cb.calls:
                        if e.name == "eq":
                            pv = " ".join(cb.provenance(a) for a in e.args)
                            # the closure returns the comparison itself (no negation): its result feeds _0
                            if "name_static_bytes" in pv and ("peer_greeting.mechanism" in caps or "peer_proposed" in caps) and any(x[0] == "call" and x[1].endswith("::eq") for x in cb.data_slice({"c": "copy", "p": {"l": 0, "pr": [], "s": "", "ty": ""}})):
                                nm_ok = True
        # every Ok return comes from that call
        other_ok = []
        for d in nb.whole_defs(0):
            if d[0] == "call" and d[1] == ic.blk:
                continue
            if d[0] == "assign" and d[3]["r"]["k"] == "agg" and d[3]["r"].get("variant") == "Err":
                continue
            other_ok.append(d)
        if en and nm_ok and not other_ok:
            r.ok(cfg, key, where(nb, ic.blk), "guards: name_static_bytes == peer proposal && (row.is_locally_enabled)(local_config)")
        else:
            why = ([] if nm_ok else ["the peer's proposed name equals the row's name"]) + ([] if en else ["the row's own is_locally_enabled(local_config) returned true"]) + (["(and a second success return exists)"] if other_ok else [])
            r.bad(cfg, key, where(nb, ic.blk), "a mechanism is instantiated without checking that %s: a locally disabled mechanism (NULL while security is configured) could be negotiated" % " and ".join(why))
        r.require(cfg, {"default": 3, "noplain": 3, "full": 6, "full-linux": 6}.get(cfg, 3), "table rows / config / negotiation obligations")


_run_r5 = run


def run(chk):  # noqa: F811
    _run_r5(chk)
    r4_null_only_without_security(chk)


# ----------------------------------------------------------------------------
# R8: the role a mechanism runs in is decided locally (who listens), never by peer bytes
# ----------------------------------------------------------------------------
def r8_role_is_local(chk):
    r = chk.rule("R8", "the mechanism role (server / client side) is decided by the local endpoint, never by peer bytes", "T11 derives-from (negative) + T1 who-may-write",
                 "the bool handed to every mechanism initializer derives only from negotiate_security_mechanism's own `is_server` parameter; the engine passes its constructor-assigned "
                 "`self.is_server`; the role fields of the engine and of every mechanism are written only when the object is built")
    for cfg, prog in chk.configs():
        nb = prog.body("security::negotiate_security_mechanism")
        if nb is None:
            r.bad(cfg, "anchor|negotiate_security_mechanism", "-", "function not found")
            continue
        names, _ = nb.names
        role_params = [names.get(i) for i in range(1, nb.rec.get("argc", 0) + 1) if nb.locals[i] == "bool"]
        peer_params = [names.get(i) for i in range(1, nb.rec.get("argc", 0) + 1) if "Greeting" in nb.locals[i]]
        n = 0
        for c in nb.calls:
            if c.kind == "def":
                continue
            bools = [a for a in c.args if a["c"] in ("copy", "move") and a["p"]["ty"] == "bool"]
            for a in bools:
                n += 1
                sl = nb.data_slice(a)
                key = "negotiate_security_mechanism|role passed to the initializer is the local role"
                bad = [x for x in sl if (x[0] == "place" and any(re.search(r"(?<![\w.])%s\b" % re.escape(pp), x[1]) for pp in peer_params))
                       or (x[0] == "param" and x[1] in peer_params) or x[0] == "call"]
                if bad:
                    r.bad(cfg, key, where(nb, c.blk), "the role handed to the mechanism initializer depends on %s: a peer can choose which side of the mechanism a secured endpoint runs (e.g. make a PLAIN/CURVE listener act as client, reveal its credentials and accept a bare WELCOME)" % ", ".join(sorted(str(x[1]) for x in bad))[:300])
                elif not any(x[0] == "param" and x[1] in role_params for x in sl):
                    r.bad(cfg, key, where(nb, c.blk), "the role handed to the mechanism initializer does not derive from the function's own role parameter (slice: %s)" % sorted(sl)[:6])
                else:
                    r.ok(cfg, key, where(nb, c.blk), "slice = {%s}" % ", ".join(sorted("%s:%s" % (x[0], x[1]) for x in sl if x[0] != "const")))
        # callers: the engine passes self.is_server
        for c in prog.calls_to(r"security::negotiate_security_mechanism$"):
            if "::tests" in c.body.path:
                continue
            n += 1
            sl = c.body.data_slice(c.args[0])
            key = "%s|role argument is the engine's own role" % short(c.body.path)
            leaves = set(x for x in sl if x[0] != "const")
            if leaves and all(x[0] == "place" and re.match(r"^self\.is_server$", x[1]) for x in leaves):
                r.ok(cfg, key, where(c.body, c.blk), "self.is_server")
            else:
                r.bad(cfg, key, where(c.body, c.blk), "the role passed to the negotiation is not the engine's constructor-assigned `self.is_server` alone (slice: %s)" % sorted(leaves)[:6])
        # who may write a role field
        role_fields = []
        for path, a in prog.facts.adts.items():
            if not re.search(r"^(security::|protocol::zmtp::engine::ZmtpEngine$)", path):
                continue
            for v in a["variants"]:
                for f in v["fields"]:
                    if f["ty"] == "bool" and re.search(r"is_server", f["name"]):
                        role_fields.append((path, f["name"]))
        for path, fname in sorted(set(role_fields)):
            writers = []
            for b in prog.bodies.values():
                if "::tests" in b.path:
                    continue
                for blk, i, st in b.statements():
                    if st["k"] == "assign" and st["p"]["pr"] and st["p"]["pr"][-1][0] == "field" and st["p"]["pr"][-1][2] == fname:
                        base_ty = st["p"]["pr"][-1][3] if len(st["p"]["pr"][-1]) > 3 else ""
                        pp = b.place_path(st["p"])
                        if b.impl_self and strip_generics(b.impl_self).split("<")[0] == path:
                            writers.append((b, blk, pp))
            n += 1
            key = "%s.%s|written only at construction" % (path.rsplit("::", 1)[-1], fname)
            if writers:
                b, blk, pp = writers[0]
                r.bad(cfg, key, where(b, blk), "`%s` is assigned after construction in %s: the role of a mechanism / engine must not change during a handshake" % (pp, short(b.path)))
            else:
                r.ok(cfg, key, path, "no assignment outside the constructor's struct expression")
        r.require(cfg, 4, "role obligations")


_run_r4 = run


def run(chk):  # noqa: F811
    _run_r4(chk)
    r8_role_is_local(chk)
