"""C13 — PUSH/DEALER give each message to exactly one ready peer, fairly.

Decides: the wait-for-first-peer path has no check-then-wait window, the router sweeps all peers
with the non-blocking form before it blocks, a message batch is moved (never cloned) on the send
path, and records the single-peer blocking wait.  Exact round-robin order / starvation-freedom are
functions of the whole add/remove/send history and are not decided."""
import re

from rules import common
from vlib import mir
from vlib.mir import strip_generics
from vlib.util import where, short, norm_cmp


def r1(chk):
    r = chk.rule("R1", "waiting for the first peer cannot miss the connection", "T6 check-then-wait",
                 "LoadBalancer::wait_for_connection registers its Notified future before checking the peer list (wakers use notify_waiters())")
    common.rule_check_then_wait(chk, r, only_fields=["notify_waiters"])
    for cfg, _ in chk.configs():
        r.require(cfg, 1, "waiters on the balancer's notifier")


def r1b_broadcast(chk):
    r = chk.rule("R1b", "a connected peer releases every sender that waits for the first peer", "T1 who-may-call (waker form)",
                 "wait_for_connection takes &self and is awaited by any number of concurrent send() calls; every waker of the balancer's notifier therefore uses the broadcast "
                 "notify_waiters() (notify_one() releases a single waiter and nobody passes the baton on: the other senders stay blocked although a peer is connected)")
    for cfg, prog in chk.configs():
        find, waiters, wakers = common.notify_inventory(prog)
        lb_waiters = [w for w in waiters if w.body.impl_self == "socket::patterns::load_balancer::LoadBalancer"]
        baton = False
        for w in lb_waiters:
            # a waiter that signals the same notifier again after it woke up would pass the wake-up on
            for c in w.body.calls:
                if c.is_("tokio::sync::Notify::notify_one") and c.blk in w.body.reachable([w.blk]):
                    baton = True
        n = 0
        for c in wakers:
            if c.body.impl_self != "socket::patterns::load_balancer::LoadBalancer" or "::tests" in c.body.path:
                continue
            n += 1
            key = "%s|wakes all waiting senders" % short(c.body.path)
            if c.name == "notify_waiters" or baton:
                r.ok(cfg, key, where(c.body, c.blk), c.name + "()")
            else:
                r.bad(cfg, key, where(c.body, c.blk), "%s() releases one of the senders blocked in wait_for_connection(); with m > 1 tasks waiting for the first peer the others stay blocked until SNDTIMEO, another peer, or close" % c.name)
        if not lb_waiters:
            r.bad(cfg, "anchor|LoadBalancer waiter", "core/src/socket/patterns/load_balancer.rs", "no Notified future is created in LoadBalancer (anchor missing)")
        r.require(cfg, 2, "wakers of the balancer's notifier")


def r2_sweep_before_block(chk):
    r = chk.rule("R2", "all peers are tried without blocking before any blocking send", "T3 guarded-by",
                 "in route_message the awaited send_multipart_owned is dominated by a failed try_send_multipart_owned_sync and by `attempts >= max_attempts`")
    for cfg, prog in chk.configs():
        for body in prog.find_bodies(r"outgoing_orchestrator::OutgoingMessageOrchestrator::route_message::\{closure#0\}$"):
            blocks = [c for c in body.calls if c.trait == "socket::connection_iface::ISocketConnection" and c.name in ("send_multipart_owned", "send_multipart", "send_message")]
            tries = [c for c in body.calls if c.trait == "socket::connection_iface::ISocketConnection" and c.name == "try_send_multipart_owned_sync"]
            for c in blocks:
                key = "%s|blocking %s after a full sweep" % (short(body.path), c.name)
                dom_try = any(body.dominates(t.blk, c.blk) for t in tries)
                swept = False
                for g in body.guards(c.blk):
                    if g.atom[0] == "cmp" and g.truth is not None:
                        x, y = body.provenance(g.atom[2]), body.provenance(g.atom[3])
                        op = g.atom[1] if g.truth else {"Lt": "Ge", "Le": "Gt", "Gt": "Le", "Ge": "Lt", "Eq": "Ne", "Ne": "Eq"}[g.atom[1]]
                        if "attempts" in x and "max_attempts" in y and op in ("Ge", "Gt", "Eq"):
                            swept = True
                        if "max_attempts" in x and "attempts" in y and op in ("Le", "Lt", "Eq"):
                            swept = True
                if dom_try and swept:
                    r.ok(cfg, key, where(body, c.blk))
                else:
                    r.bad(cfg, key, where(body, c.blk), "a blocking send is reachable without every peer having refused a non-blocking attempt first: a full peer is waited on while another has room")
            # max_attempts derives from the number of connections
            key = "%s|sweep length = number of peers" % short(body.path)
            ok = False
            names, _ = body.names
            for l, nm in names.items():
                if nm == "max_attempts":
                    for d in body.whole_defs(l):
                        if d[0] == "call" or d[0] == "assign":
                            pv = body.provenance({"c": "copy", "p": {"l": l, "pr": [], "s": "", "ty": ""}})
                    ok = all("connection_count" in body.provenance(d[3]["r"]["o"]) if (d[0] == "assign" and d[3]["r"]["k"] == "use") else ("connection_count" in mir.Call(body, d[1], d[3]).recv() if d[0] == "call" and mir.Call(body, d[1], d[3]).args else False) for d in body.whole_defs(l)) if body.whole_defs(l) else False
            if ok:
                r.ok(cfg, key, where(body, 0), "max_attempts = connection_count().max(1)")
            else:
                r.bad(cfg, key, where(body, 0), "the sweep bound max_attempts does not derive from load_balancer.connection_count()")
        r.require(cfg, 2, "route_message obligations")


def r3_no_clone(chk):
    r = chk.rule("R3", "a batch goes to at most one peer", "T1 (no clone on the send path)",
                 "the PUSH/DEALER routing code moves the FrameBatch (Rust move semantics then exclude double delivery); it never clones it")
    for cfg, prog in chk.configs():
        n = 0
        for body in prog.bodies.values():
            if not (body.impl_self in ("socket::patterns::outgoing_orchestrator::OutgoingMessageOrchestrator", "socket::patterns::load_balancer::LoadBalancer") or
                    (body.impl_self in ("socket::push_socket::PushSocket",) and body.name in ("send", "send_multipart", "send_with_timeout", "try_send_sync"))):
                continue
            n += 1
            clones = [c for c in body.calls if c.declared == "std::clone::Clone::clone" and c.self_ty and ("FrameBatch" in c.self_ty or c.self_ty.endswith("Msg"))]
            key = "%s|no FrameBatch clone" % short(body.path)
            if clones:
                r.bad(cfg, key, where(body, clones[0].blk), "the routing path clones the message: it could be delivered to two peers")
            else:
                r.ok(cfg, key, where(body, 0))
        r.require(cfg, 8, "bodies on the PUSH/DEALER routing path")


def r4_single_peer_wait(chk):
    r = chk.rule("R4", "the balancer never parks on one chosen peer", "T1",
                 "route_message must not await a single peer's full pipe for the whole SNDTIMEO while other peers may drain")
    for cfg, prog in chk.configs():
        for body in prog.find_bodies(r"outgoing_orchestrator::OutgoingMessageOrchestrator::route_message::\{closure#0\}$"):
            for c in body.calls:
                if c.trait == "socket::connection_iface::ISocketConnection" and c.name in ("send_multipart_owned", "send_multipart", "send_message"):
                    r.bad(cfg, "%s|awaits one peer" % short(body.path), where(body, c.blk),
                          "after a sweep in which every peer was full the router awaits exactly one peer (`%s`) for up to SNDTIMEO; a peer that finished the handshake and never reads blocks the sender while other peers drain" % c.name)
        r.require(cfg, 1, "blocking hand-off in route_message")


def run(chk):
    chk.undecided = ["exact round-robin order and starvation-freedom (function of the whole add/remove/send history)"]
    r1(chk)
    r1b_broadcast(chk)
    r2_sweep_before_block(chk)
    r3_no_clone(chk)
    r4_single_peer_wait(chk)
