#!/bin/bash
# Confirm a seeded change independently: demo passes on HEAD, fails with the patch, workspace builds,
# pinned baseline passes with the patch.  usage: tools/confirm_seed.sh <seed-dir> [--no-baseline]
set -u
SD=$(realpath "$1"); NOBASE=${2:-}
ID=$(basename "$SD")
WT=/tmp/cs-$ID
export CARGO_NET_OFFLINE=true
git -C /repo worktree remove --force $WT 2>/dev/null; rm -rf $WT
git -C /repo worktree add --detach $WT HEAD >/dev/null 2>&1 || { echo "worktree failed"; exit 2; }
export CARGO_TARGET_DIR=$WT/target
cp -r /repo/target $WT/target 2>/dev/null
cd $WT
git apply "$SD/demo.diff" || { echo "RESULT demo.diff does not apply"; exit 2; }
CMD=$(python3 -c "import json;print(json.load(open('$SD/meta.json'))['demo_cmd'])")
run_demo() { unshare -n sh -c "ip link set lo up; cd $WT && timeout 900 $CMD" > $WT/demo.log 2>&1; echo $?; }
RC0=$(run_demo); echo "demo on HEAD: rc=$RC0"; tail -3 $WT/demo.log | cut -c1-200
git apply "$SD/patch.diff" || { echo "RESULT patch.diff does not apply"; exit 2; }
RC1=$(run_demo); echo "demo with patch: rc=$RC1"; grep -E "test result|panicked|FAILED" $WT/demo.log | head -5 | cut -c1-200
BUILD=skipped
cargo build --workspace --offline -j 8 > $WT/build.log 2>&1 && BUILD=ok || BUILD=FAILED
echo "workspace build with patch: $BUILD"
BASE=skipped
if [ "$NOBASE" != "--no-baseline" ]; then
  git apply -R "$SD/demo.diff"
  BASE=$(/verif/tools/baseline.sh $WT | tr '\n' ' ' | cut -c1-400)
fi
echo "baseline with patch: $BASE"
# pinned tests that did not pass: rerun each alone (still with the patch) to tell a load flake from a real break
RETEST=""
for t in $(echo "$BASE" | grep -o "NOT PASSING: [^ ]*" | awk '{print $3}'); do
  short=${t##*::}; case "$short" in case_*) short=$(echo "$t" | awk -F:: '{print $(NF-1)"::"$NF}');; esac
  ok=0
  for i in 1 2 3; do
    unshare -n sh -c "ip link set lo up; cd $WT && timeout 600 cargo nextest run --workspace --offline --tool-config-file pb:/w/lib/nextest.toml --profile pb -E 'test($short)'" > $WT/retest.log 2>&1 && ok=$((ok+1))
  done
  RETEST="$RETEST $short:$ok/3"
done
echo "retest alone with patch:$RETEST"
echo "RESULT id=$ID demo_head_rc=$RC0 demo_patch_rc=$RC1 build=$BUILD baseline=[$BASE] retest=[$RETEST]"
cd /; git -C /repo worktree remove --force $WT; rm -rf $WT
