#!/usr/bin/env python3
"""Regenerate MANIFEST.json from the rule modules present and the tables below."""
import json
import os

V = os.path.dirname(os.path.dirname(os.path.abspath(__file__)))
props = [json.loads(l) for l in open(os.path.join(V, "properties.jsonl"))]

# property -> (what the check decides, technique)
CLAIMS = json.load(open(os.path.join(V, "tools", "claims.json")))
NA = json.load(open(os.path.join(V, "tools", "not_applicable.json")))

checks = []
na = []
for p in props:
    pid = p["id"]
    has = os.path.exists(os.path.join(V, "rules", pid.lower() + ".py"))
    if has and pid in CLAIMS:
        c = CLAIMS[pid]
        checks.append({
            "property_id": pid,
            "quick_cmd": "./verif check %s --tier quick" % pid,
            "thorough_cmd": "./verif check %s --tier thorough" % pid,
            "evidence_file": "/verif/evidence/%s.json" % pid,
            "replay_cmd_template": "cat {path}",
            "engine": "mir-rules",
            "level_claimed": {
                "category": "other",
                "text": "Static structural necessary-condition check: decides " + c["decides"] + " It does NOT decide the runtime behaviour itself (" + c["not_decided"] + ").",
                "design_ref": "DESIGN.md section 5 / " + pid,
            },
            "level_note": "Trusted: rustc type checking, name resolution and MIR construction; the fact-printing driver; the external-crate summary tables inside the rules (tokio::select!, Notify, VecDeque semantics); cfg coverage = configurations default + full-linux (quick), plus noplain + full (thorough).",
            "technique": c["technique"],
        })
    else:
        na.append({"property_id": pid, "reason": NA.get(pid, "check not built yet (work in progress; see DESIGN.md section 5)")})

m = {
    "version": 1,
    "setup_cmd": "./verif setup",
    "hooks": {
        "guard": "rzmq_verif",
        "enable": "no hooks: the analysis reads private items through the compiler (rustc_private driver under cargo +nightly check); nothing is added to /repo",
        "baseline_off_cmd": "cd /repo && cargo nextest run --workspace --no-fail-fast --tool-config-file pb:/w/lib/nextest.toml --profile pb --test-threads 8 --offline || cargo test --workspace --no-fail-fast --offline",
        "source_commits": [],
        "add_only": True,
    },
    "engines": [
        {"name": "mir-rules", "path": "/verif/verif", "serves_properties": [c["property_id"] for c in checks],
         "kind_free_text": "rustc_private driver (pre-borrowck MIR + item facts as JSONL) + Python rule engine (CFG, dominators, select!-aware guards, def-use, call graph)"}
    ],
    "checks": checks,
    "not_applicable": na,
    "notes": "Static analysis only (DESIGN.md). Each check decides the structural rules listed in its evidence file; behavioural remainders are listed under coverage.not_decided. Known genuine defects are in known_findings.json.",
}
json.dump(m, open(os.path.join(V, "MANIFEST.json"), "w"), indent=1)
print("checks:", [c["property_id"] for c in checks])
print("not_applicable:", [n["property_id"] for n in na])
