"""C19 — heartbeats detect dead peers and never kill live ones.

Decides the control-flow shape of the engine's heartbeat logic (guards, order, which fields are
written where), that PONG echoes the PING context, that no heartbeat is emitted on ZMTP/2.0, that
the timer period derives from HEARTBEAT_IVL, and that every back-end drives the heartbeat clock.
Not: the [ivl, 2*ivl] window and the timeout as wall-clock facts."""
import re

from vlib import mir
from vlib.mir import strip_generics
from vlib.util import where, short, is_plumbing, norm_cmp

ENG = "protocol::zmtp::engine::ZmtpEngine"


def field_writes(body, field):
    return [(b, st) for b, i, st in body.statements() if st["k"] == "assign" and st["p"]["pr"] and st["p"]["pr"][-1][0] == "field" and st["p"]["pr"][-1][2] == field]


def send_aggs(body):
    return [(b, st) for b, i, st in body.aggregates() if st["r"].get("variant") == "Send" and st["r"].get("adt", "").endswith("NetAction")]


def guard_on_place(body, blk, rx, truth):
    return any(g.atom[0] == "place" and re.search(rx, g.atom[1]) and g.truth is truth for g in body.guards(blk, select_aware=False))


def r1_on_tick(chk):
    r = chk.rule("R1", "on_tick order and guards", "T3 guarded-by",
                 "a PING is emitted only when not already waiting for a PONG and idle >= HEARTBEAT_IVL; emitting it sets waiting_for_pong and last_ping_sent_time; the PONG-timeout verdict is taken only while waiting and before any new PING")
    for cfg, prog in chk.configs():
        b = prog.body(ENG + "::on_tick")
        if b is None:
            r.bad(cfg, "anchor|on_tick", "-", "not found")
            continue
        sends = send_aggs(b)
        if len(sends) != 1:
            r.bad(cfg, "on_tick|one PING emission", where(b, 0), "expected exactly one NetAction::Send in on_tick, found %d" % len(sends))
            continue
        sb = sends[0][0]
        ok = guard_on_place(b, sb, r"\.waiting_for_pong$", False)
        (r.ok if ok else r.bad)(cfg, "on_tick|PING only if !waiting_for_pong", where(b, sb), *([] if ok else ["a PING can be sent while a PONG is still outstanding: last_ping_sent_time moves and a dead peer is never timed out (or PINGs pile up)"]))
        idle = False
        for g in b.guards(sb, select_aware=False):
            if g.atom[0] == "call" and g.atom[1].name in ("ge", "gt") and g.truth is True:
                pv = " ".join(b.provenance_all(a) for a in g.atom[1].args)
                if "duration_since" in pv and "last_activity_time" in pv and "heartbeat_ivl" in pv:
                    idle = True
        (r.ok if idle else r.bad)(cfg, "on_tick|PING only if idle >= heartbeat_ivl", where(b, sb), *([] if idle else ["the PING is not guarded by `now - last_activity_time >= heartbeat_ivl`"]))
        w1 = [x for x, st in field_writes(b, "waiting_for_pong") if st["r"]["k"] == "use" and st["r"]["o"].get("int") == 1]
        w2 = [x for x, st in field_writes(b, "last_ping_sent_time")]
        ok = bool(w1 and w2) and all(b.dominates(sb, x) or x == sb or sb in b.bwd_reachable([x]) for x in w1 + w2)
        (r.ok if ok else r.bad)(cfg, "on_tick|PING arms the PONG wait", where(b, sb), *([] if ok else ["emitting a PING does not set waiting_for_pong / last_ping_sent_time: a peer that never answers is never detected"]))
        # timeout verdict: PeerError(Timeout) guarded by waiting_for_pong and by duration_since(ping_time) >= timeout; and it returns before the PING branch
        tmo = [(x, st) for x, i, st in b.aggregates() if st["r"].get("variant") == "Timeout" and st["r"].get("adt", "").endswith("ZmqError")]
        if not tmo:
            r.bad(cfg, "on_tick|PONG timeout verdict", where(b, 0), "no Timeout verdict in on_tick")
        else:
            tb = tmo[0][0]
            waiting = guard_on_place(b, tb, r"\.waiting_for_pong$", True)
            cmp_ok = False
            for g in b.guards(tb, select_aware=False):
                if g.atom[0] == "call" and g.atom[1].name in ("ge", "gt") and g.truth is True:
                    pv = " ".join(b.provenance_all(a) for a in g.atom[1].args)
                    if "duration_since" in pv and "heartbeat_timeout" in pv and ("last_ping_sent_time" in pv or "ping_time" in pv):
                        cmp_ok = True
            closes = any(var == "Closed" for _, _, var in __import__("rules.c06", fromlist=["x"]).phase_assignments(b))
            ok = waiting and cmp_ok and closes and sb not in b.reachable([tb])
            (r.ok if ok else r.bad)(cfg, "on_tick|timeout only while waiting, measured from the PING, before any new PING", where(b, tb), *([] if ok else ["the PONG-timeout verdict is not guarded by waiting_for_pong && now - last_ping_sent_time >= heartbeat_timeout (or can be followed by a new PING): a live peer could be disconnected"]))
        data = guard_on_place(b, sb, r"x^", True)
        r.require(cfg, 4, "on_tick obligations")


def r2_activity(chk):
    r = chk.rule("R2", "any frame refreshes activity; PONG clears the wait", "T3",
                 "process_data refreshes last_activity_time for every received frame before it looks at the frame kind, and the PONG arm clears waiting_for_pong")
    for cfg, prog in chk.configs():
        b = prog.body(ENG + "::process_data")
        if b is None:
            r.bad(cfg, "anchor|process_data", "-", "not found")
            continue
        la = [x for x, st in field_writes(b, "last_activity_time")]
        split = [s for s in range(b.n) if b.term(s)["k"] == "switch" and b.cond_atom(b.term(s)["d"])[0][0] == "call" and b.cond_atom(b.term(s)["d"])[0][1].matches(r"Msg::is_command$")]
        ok = bool(la and split) and all(any(b.dominates(x, s) for x in la) for s in split)
        (r.ok if ok else r.bad)(cfg, "process_data|activity refreshed for every frame", where(b, la[0] if la else 0), *([] if ok else ["last_activity_time is not written before the command/data split: traffic of one kind does not count as liveness and an active peer gets PINGed / timed out"]))
        clr = [x for x, st in field_writes(b, "waiting_for_pong") if st["r"]["k"] == "use" and st["r"]["o"].get("int") == 0]
        pong_ok = False
        for x in clr:
            for g in b.guards(x, select_aware=False):
                if g.atom[0] == "discr" and "ZmtpCommand" in g.atom[2] and "parse" in g.atom[1]:
                    pong_ok = True
        (r.ok if pong_ok else r.bad)(cfg, "process_data|PONG clears waiting_for_pong", where(b, clr[0] if clr else 0), *([] if pong_ok else ["no arm of the received-command match clears waiting_for_pong: every PING ends in a timeout"]))
        r.require(cfg, 2, "process_data obligations")


def r3_pong_echo(chk):
    r = chk.rule("R3", "PONG echoes the PING context", "T11 derives-from", "the argument of create_pong derives from the Ping(ctx) payload of the parsed command")
    for cfg, prog in chk.configs():
        for c in prog.calls_to(r"ZmtpCommand::create_pong$"):
            if "::tests" in c.body.path:
                continue
            pv = c.body.provenance(c.args[0])
            ok = "@Ping" in pv and "ZmtpCommand::parse" in pv
            (r.ok if ok else r.bad)(cfg, "%s|create_pong(ctx of the PING)" % short(c.body.path), where(c.body, c.blk), *([pv[:80]] if ok else ["the PONG context does not come from the received PING: " + pv[:80]]))
        r.require(cfg, 1, "create_pong call sites")


def r4_no_heartbeat_v2(chk):
    r = chk.rule("R4", "no heartbeat on ZMTP/2.0", "T3", "every Send in on_tick is on the `version != V2` side")
    for cfg, prog in chk.configs():
        b = prog.body(ENG + "::on_tick")
        if b is None:
            continue
        for sb, st in send_aggs(b):
            ok = False
            for g in b.guards(sb, select_aware=False):
                if g.atom[0] == "call" and g.atom[1].name in ("eq", "ne"):
                    pv = " ".join(b.provenance_all(a) for a in g.atom[1].args)
                    if "version" in pv and ((g.atom[1].name == "eq" and g.truth is False) or (g.atom[1].name == "ne" and g.truth is True)):
                        ok = True
            (r.ok if ok else r.bad)(cfg, "on_tick|Send only if version != V2", where(b, sb), *([] if ok else ["a PING can be emitted on a ZMTP/2.0 session, which has no COMMAND frames"]))
        r.require(cfg, 1, "Send sites in on_tick")


def r5_timer_period(chk):
    r = chk.rule("R5", "the tick period is HEARTBEAT_IVL", "T11 derives-from", "both arguments of interval_at in the session derive from the heartbeat_ivl option")
    for cfg, prog in chk.configs():
        for c in prog.calls_to(r"^tokio::time::interval_at$"):
            if "sessionx::actor" not in c.body.path:
                continue
            pv = [c.body.provenance_all(a) for a in c.args]
            ok = all("heartbeat_ivl" in p for p in pv)
            (r.ok if ok else r.bad)(cfg, "%s|interval_at(now + ivl, ivl)" % short(c.body.path), where(c.body, c.blk), *([] if ok else ["the heartbeat timer is not derived from heartbeat_ivl: %s" % pv]))
        r.require(cfg, 1, "interval_at in the session")


def r6_backends_tick(chk):
    r = chk.rule("R6", "both back-ends drive the heartbeat clock", "T2 sibling agreement",
                 "every back-end that feeds bytes to ZmtpEngine::on_network_bytes also calls ZmtpEngine::on_tick")
    for cfg, prog in chk.configs():
        drivers = {}
        for c in prog.all_calls():
            if c.callee in (ENG + "::on_network_bytes", ENG + "::on_tick") and "::tests" not in c.body.path and not c.body.path.startswith("protocol::"):
                mod = c.body.path.split("::")[0] if not c.body.path.startswith("<") else c.body.path.split("::")[0].lstrip("<")
                drivers.setdefault(mod, set()).add(c.name)
        for mod, names in sorted(drivers.items()):
            key = "%s|drives on_tick" % mod
            if "on_tick" in names:
                r.ok(cfg, key, mod)
            else:
                r.bad(cfg, key, "core/src/%s" % mod, "back-end `%s` feeds the engine with network bytes but never calls on_tick: heartbeats are neither sent nor checked on it" % mod)
        r.require(cfg, 1, "engine drivers")


def r8_pong_clock_starts_at_the_ping(chk):
    r = chk.rule("R8", "the PONG deadline is counted from the PING, and only from the PING", "T1 who-may-write",
                 "`last_ping_sent_time` is set to Some(..) only where a PING is created (the emission in on_tick); `waiting_for_pong` is set to true only there too: "
                 "no other event (a later write, a flush, inbound traffic) may move the PONG deadline of an outstanding PING")
    for cfg, prog in chk.configs():
        n = 0
        for body in prog.bodies.values():
            if body.impl_self != "protocol::zmtp::engine::ZmtpEngine" or "::tests" in body.path:
                continue
            pings = [c for c in body.calls if c.name == "create_ping"]
            for blk, i, st in body.statements():
                if st["k"] != "assign" or not st["p"]["pr"] or body.blocks[blk]["cleanup"]:
                    continue
                pp = body.place_path(st["p"])
                if pp not in ("self.last_ping_sent_time", "self.waiting_for_pong"):
                    continue
                rv = st["r"]
                arming = (rv["k"] == "agg" and rv.get("variant") == "Some") or (rv["k"] == "use" and rv["o"].get("int") == 1) or \
                    (rv["k"] == "use" and rv["o"]["c"] in ("copy", "move") and "Some" in body.provenance(rv["o"]))
                if pp.endswith("last_ping_sent_time") and rv["k"] == "use" and rv["o"]["c"] in ("copy", "move"):
                    org = body.value_origin(rv["o"])
                    arming = not (org[0] == "agg" and org[1]["r"].get("variant") == "None")
                if not arming:
                    continue
                n += 1
                key = "%s|%s armed only with a PING" % (short(body.path), pp.split(".")[-1])
                if any(body.dominates(c.blk, blk) for c in pings):
                    r.ok(cfg, key, where(body, blk), "dominated by create_ping")
                else:
                    r.bad(cfg, key, where(body, blk), "`%s` is armed in `%s` without a PING being created on the way: the PONG deadline of an outstanding PING moves (or a wait starts with no PING on the wire), so a peer that never answers is not closed within HEARTBEAT_TIMEOUT of its PING" % (pp, body.name))
        r.require(cfg, 2, "arming writes of the heartbeat wait state")


def run(chk):
    chk.undecided = ["the [ivl, 2*ivl] probing window and the timeout as wall-clock facts"]
    r1_on_tick(chk)
    r2_activity(chk)
    r3_pong_echo(chk)
    r4_no_heartbeat_v2(chk)
    r5_timer_period(chk)
    r6_backends_tick(chk)
    r8_pong_clock_starts_at_the_ping(chk)
    # heartbeats under an encrypting framer: PING/PONG may jump the queue only while the framer is pass-through *now*
    from rules.c18 import r6_priority_only_when_passthrough_now
    r6_priority_only_when_passthrough_now(chk, rid="R7")
