"""C04 — what a connection delivers depends on the bytes sent, not on read boundaries."""
import re

from vlib.util import where, short
from vlib.mir import strip_generics as mir_strip

DROP_CALLS = ("std::mem::drop", "std::mem::forget", "core::mem::drop")


def variant_index(prog, adt_suffix, variant):
    for p, a in prog.facts.adts.items():
        if p.endswith(adt_suffix):
            for i, v in enumerate(a["variants"]):
                if v["name"] == variant:
                    return p, i
    return None, None


def payload_consumers(body, scrut_local, variant):
    """blocks containing a call that takes BY VALUE the payload of `variant` of the scrutinee"""
    out = set()
    for c in body.calls:
        if c.callee in DROP_CALLS or c.declared in DROP_CALLS:
            continue
        for a in c.args:
            org = body.value_origin(a)
            if org[0] == "place":
                p = org[1]
                if p["l"] == scrut_local and any(e[0] == "downcast" and e[1] == variant for e in p["pr"]):
                    out.add(c.blk)
    # also: payload moved into an aggregate that is returned / stored (e.g. Some(batch) assigned to a field)
    for b, i, st in body.statements():
        if st["k"] != "assign":
            continue
        rv = st["r"]
        ops = []
        if rv["k"] == "agg":
            ops = rv["ops"]
        elif rv["k"] == "use" and st["p"]["pr"]:
            ops = [rv["o"]]  # store into a field
        for o in ops:
            org = body.value_origin(o)
            if org[0] == "place" and org[1]["l"] == scrut_local and any(e[0] == "downcast" and e[1] == variant for e in org[1]["pr"]):
                if rv["k"] == "agg" or st["p"]["pr"]:
                    out.add(b)
    return out


def r1_no_consumer_discards(chk):
    r = chk.rule("R1", "no consumer of AppAction discards DeliverMessage", "T2 sibling agreement + T5 payload consumed",
                 "every `match` over the engine's AppAction moves the DeliverMessage payload into a queue/call on every path of its arm")
    floors = {"default": 2, "noplain": 2, "full": 2, "full-linux": 3}
    for cfg, prog in chk.configs():
        adt, vidx = variant_index(prog, "protocol::zmtp::actions::AppAction", "DeliverMessage")
        if adt is None:
            r.bad(cfg, "anchor|AppAction::DeliverMessage", "-", "enum AppAction / variant DeliverMessage not found")
            continue
        producers = set()
        for b2 in prog.bodies.values():
            if b2.impl_trait == "std::clone::Clone":
                continue  # a clone needs an existing DeliverMessage
            for _, _, st in b2.aggregates():
                if st["r"].get("adt") == adt and st["r"].get("variant") == "DeliverMessage":
                    producers.add(mir_strip(b2.path))
        if not producers:
            r.bad(cfg, "anchor|constructor of DeliverMessage", "-", "no body constructs AppAction::DeliverMessage")
        for body in prog.bodies.values():
            if "/tests" in body.file:
                continue
            for s in range(body.n):
                t = body.term(s)
                if t["k"] != "switch" or s not in body.live_blocks():
                    continue
                a, _ = body.cond_atom(t["d"])
                if a[0] != "discr" or a[2] != adt:
                    continue
                place = a[3]
                if place["pr"]:
                    # matching through a reference/projection: only reads
                    continue
                scrut = place["l"]
                key = "%s|match AppAction arm DeliverMessage" % short(body.path)
                # where does the matched output come from?  If it is the result of an engine entry
                # point that cannot (call graph) construct DeliverMessage, there is nothing to consume.
                body._prov = True
                try:
                    prov = body.place_path(place)
                finally:
                    body._prov = False
                m = re.search(r"(protocol::zmtp::engine::ZmtpEngine::\w+)\(", prov)
                if m and producers is not None:
                    src = m.group(1)
                    if src in prog.by_stripped and not (prog.reach([src]) & producers):
                        r.note("%s: %s matches the output of %s, which cannot construct DeliverMessage (call graph) - no obligation" % (cfg, short(body.path), src))
                        continue
                    key += " (output of %s)" % src.rsplit("::", 1)[-1]
                tgt = [tb for v, tb in t["targets"] if v == vidx]
                explicit = bool(tgt)
                if not tgt:
                    tgt = [t["otherwise"]]
                cons = payload_consumers(body, scrut, "DeliverMessage")
                join = body.ipdom.get(s)
                reach = body.reachable(tgt, avoid_blocks=cons)
                escapes = (join in reach) or any(body.term(b)["k"] == "return" for b in reach)
                if tgt[0] in cons:
                    escapes = False
                if not explicit:
                    r.bad(cfg, key, where(body, s), "DeliverMessage falls into the wildcard arm of a by-value match over AppAction: the delivered batch is dropped")
                elif escapes:
                    r.bad(cfg, key, where(body, s), "the DeliverMessage arm can finish without moving its FrameBatch into a queue or call: data frames that arrive in the same read as the last handshake bytes are silently dropped")
                else:
                    r.ok(cfg, key, where(body, s), "payload moved into a call on every path of the arm")
        r.require(cfg, floors.get(cfg, 2), "by-value matches over AppAction")


def r3_phase_handover_drains(chk):
    from rules import c06
    from vlib import mir
    r = chk.rule("R3", "a phase hand-over drains the bytes that arrived with the last handshake bytes", "T4 must-pass-through",
                 "after every forward assignment self.phase = P (P dispatched by on_network_bytes to handler h_P) every path to the function's return passes through a call of h_P "
                 "or through the edge network_read_accumulator.is_empty() == true; otherwise frames that share a read with the end of the handshake wait for the next read (which may never come)")
    for cfg, prog in chk.configs():
        disp = prog.body("protocol::zmtp::engine::ZmtpEngine::on_network_bytes")
        adt = prog.facts.adts.get(c06.PHASE_ADT)
        if disp is None or adt is None:
            r.bad(cfg, "anchor|on_network_bytes / ZmtpPhase", "core/src/protocol/zmtp/engine.rs", "dispatcher or phase enum not found")
            continue
        names = [v["name"] for v in adt["variants"]]
        table = {}
        for c in disp.calls:
            if not c.matches(r"engine::ZmtpEngine::process_\w+$"):
                continue
            for g in disp.guards(c.blk, select_aware=False):
                if g.atom[0] == "discr" and g.atom[1].endswith(".phase") and isinstance(g.label, int) and g.label < len(names):
                    table[names[g.label]] = c.callee_stripped if hasattr(c, "callee_stripped") else mir.strip_generics(c.callee)
        if len(table) < 4:
            r.bad(cfg, "anchor|phase dispatch table", where(disp, 0), "on_network_bytes dispatches only %s" % sorted(table))
            continue
        n = 0
        for body in c06.engine_bodies(prog):
            if body.kind not in ("fn", "assoc_fn"):
                continue
            for b, i, var in c06.phase_assignments(body):
                if var not in table or var == "Greeting":
                    continue
                n += 1
                h = table[var]
                key = "%s|phase=%s hands the remaining bytes to %s" % (short(body.path), var, h.rsplit("::", 1)[-1])
                avoid_blocks = set(c.blk for c in body.calls if mir.strip_generics(c.callee) == h)
                avoid_edges = []
                for s in range(body.n):
                    if body.term(s)["k"] != "switch":
                        continue
                    a, pol = body.switch_atom(s)
                    if a[0] == "call" and a[1].name == "is_empty" and "network_read_accumulator" in (a[1].recv() or ""):
                        avoid_edges.append((s, body.bool_edge_label(s, pol)))
                reach = body.reachable([b], avoid_blocks=avoid_blocks, avoid_edges=avoid_edges)
                rets = [x for x in body.returns() if x in reach]
                if rets:
                    r.bad(cfg, key, where(body, b), "after self.phase = %s the function can return without calling %s and without having seen the accumulator empty: bytes of the next phase that arrived in the same read stay unprocessed until another read happens" % (var, h.rsplit("::", 1)[-1]))
                else:
                    r.ok(cfg, key, where(body, b), "every path to return calls the handler or takes accumulator.is_empty()")
        r.require(cfg, 6, "forward phase assignments")


def _path_to(body, starts, goal, avoid_blocks, avoid_edges):
    """one path (list of blocks) from starts to goal under the avoid sets, for diagnostics"""
    from collections import deque
    prev = {}
    dq = deque(s for s in starts if s not in avoid_blocks)
    seen = set(dq)
    while dq:
        b = dq.popleft()
        if b == goal:
            out = [b]
            while out[-1] in prev:
                out.append(prev[out[-1]])
            return out[::-1]
        for tb, lab in body.edges(b):
            if (b, lab) in avoid_edges or tb in avoid_blocks or tb in seen:
                continue
            seen.add(tb)
            prev[tb] = b
            dq.append(tb)
    return []


def _ref_root(body, o):
    """local L when operand o is `&mut L` / `&mut *(&mut L)` (a reborrow chain to a plain local)"""
    for _ in range(6):
        if o["c"] not in ("copy", "move") or o["p"]["pr"]:
            return None
        ds = body.whole_defs(o["p"]["l"])
        if len(ds) != 1 or ds[0][0] != "assign":
            return None
        rv = ds[0][3]["r"]
        if rv["k"] == "ref":
            p = rv["p"]
            if not p["pr"]:
                return p["l"]
            if len(p["pr"]) == 1 and p["pr"][0][0] == "deref":
                o = {"c": "copy", "p": {"l": p["l"], "pr": [], "s": "", "ty": ""}}
                continue
            return None
        if rv["k"] == "use":
            o = rv["o"]
            continue
        return None
    return None


def r4_bytes_read_reach_engine(chk):
    from vlib import mir
    r = chk.rule("R4", "bytes taken from the transport are not discarded on a clean path", "T4 must-pass-through",
                 "where a read cycle accumulates into a local buffer that is handed to ZmtpEngine::on_network_bytes, every path from a site that appended to the buffer to the function's return "
                 "passes through on_network_bytes, except transport failures (ZmqError::from_io_endpoint / the `?` on the read itself) and the `n == 0` edge of that same read; "
                 "a clean EOF seen later in the same cycle must not drop data read earlier in it")
    for cfg, prog in chk.configs():
        n = 0
        for e in prog.calls_to(r"ZmtpEngine::on_network_bytes$"):
            body = e.body
            if "::tests" in body.path or len(e.args) < 2:
                continue
            # the buffer local behind the argument: freeze(buf) / split(buf)
            o = e.args[1]
            buf = None
            for _ in range(4):
                org = body.value_origin(o)
                if org[0] == "call" and org[1].name in ("freeze", "split", "split_to") and org[1].args:
                    a0 = org[1].args[0]
                    l = a0["p"]["l"] if a0["c"] in ("copy", "move") and not a0["p"]["pr"] else None
                    for _k in range(8):
                        if l is None:
                            break
                        ds = body.whole_defs(l)
                        if len(ds) == 1 and ds[0][0] == "assign" and ds[0][3]["r"]["k"] == "use" and ds[0][3]["r"]["o"]["c"] in ("copy", "move") and not ds[0][3]["r"]["o"]["p"]["pr"]:
                            l = ds[0][3]["r"]["o"]["p"]["l"]
                            continue
                        break
                    if l is not None and body.locals[l].startswith("bytes::BytesMut"):
                        buf = l
                        break
                    rr = _ref_root(body, a0)
                    if rr is not None:
                        buf = rr
                        break
                    o = a0
                    continue
                break
            if buf is None or not body.locals[buf].startswith("bytes::BytesMut"):
                r.note("%s [%s]: the engine is fed from %s (no local accumulation buffer: one read per cycle)" % (short(body.path), cfg, body.provenance(e.args[1])[:80]))
                continue
            engine_blocks = set(c.blk for c in body.calls if c.matches(r"ZmtpEngine::on_network_bytes$"))
            io_err = set(c.blk for c in body.calls if c.matches(r"ZmqError::from_io_endpoint$"))
            for f in body.calls:
                if f.blk in engine_blocks or f.target is None or is_plumbing_call(f):
                    continue
                if not any(_ref_root(body, a) == buf for a in f.args):
                    continue
                if f.name in ("freeze", "split", "len", "is_empty", "capacity"):
                    continue
                n += 1
                key = "%s|bytes appended by %s reach the engine" % (short(body.path), f.name)
                avoid_edges = set()
                for s in range(body.n):
                    t = body.term(s)
                    if t["k"] != "switch":
                        continue
                    a, pol = body.switch_atom(s)
                    if a[0] == "cmp" and a[1] in ("Eq", "Ne"):
                        pa, pb = body.provenance(a[2]), body.provenance(a[3])
                        zero = body.const_int(a[2]) == 0 or body.const_int(a[3]) == 0
                        if zero and (f.name + "(") in (pa + pb):
                            avoid_edges.add((s, body.bool_edge_label(s, pol if a[1] == "Eq" else not pol)))
                    if a[0] == "discr" and a[2].startswith("std::ops::ControlFlow<") and (f.name + "(") in a[1]:
                        avoid_edges.add((s, body.label_for(s, 1)))
                avoid_blocks = engine_blocks | io_err
                reach = body.reachable([f.target], avoid_blocks=avoid_blocks, avoid_edges=avoid_edges)
                rets = [x for x in body.returns() if x in reach]
                if rets:
                    path = _path_to(body, [f.target], rets[0], avoid_blocks, avoid_edges)
                    via = [body.term(x)["sp"].split("/")[-1] for x in path if body.term(x)["k"] == "switch"]
                    r.bad(cfg, key, where(body, f.blk), "after %s(&mut buf, ..) the function can return without handing buf to on_network_bytes (branches taken: %s): the bytes already read in this cycle, possibly complete messages, are dropped, so what is delivered depends on whether the peer's data and its FIN were seen in the same read cycle" % (f.name, " -> ".join(via[-4:])))
                else:
                    r.ok(cfg, key, where(body, f.blk), "every clean path to return feeds the engine")
        r.require(cfg, 2, "buffer fill sites")


def rule_no_await_between_read_and_engine(chk, r):
    """shared by C04 R5 and C01 R9: bytes that have left the transport sit in a local buffer of the read future; if that future suspends
    again before the buffer is handed to the engine, the session loop's select! may drop it (another arm completes) and the bytes are gone"""
    for cfg, prog in chk.configs():
        n = 0
        for e in prog.calls_to(r"ZmtpEngine::on_network_bytes$"):
            body = e.body
            if "::tests" in body.path or len(e.args) < 2 or not body.kind.startswith("coroutine"):
                continue
            buf = _engine_buffer(body, e)
            if buf is None:
                continue
            engine_blocks = set(c.blk for c in body.calls if c.matches(r"ZmtpEngine::on_network_bytes$"))
            awaits = body.awaits()
            yields = set(body.yields())
            for f in body.calls:
                if f.blk in engine_blocks or f.target is None or is_plumbing_call(f):
                    continue
                if not any(_ref_root(body, a) == buf for a in f.args):
                    continue
                if f.name in ("freeze", "split", "len", "is_empty", "capacity"):
                    continue
                n += 1
                key = "%s|no suspension between %s into the read buffer and the engine" % (short(body.path), f.name)
                start = f.target
                for aw in awaits:
                    ac = body.awaited_call(aw)
                    if ac is not None and ac.blk == f.blk and aw.ready_blk is not None:
                        start = aw.ready_blk  # the read itself is awaited: bytes are in the buffer once it is Ready
                reach = body.reachable([start], avoid_blocks=engine_blocks)
                hit = sorted(y for y in yields if y in reach)
                if hit:
                    r.bad(cfg, key, where(body, hit[0]), "after %s(&mut buf, ..) has put bytes into the future's local buffer the future can suspend again (%s) before buf reaches on_network_bytes: this future is one arm of the session loop's select!, so when another arm wins the poll it is dropped together with the bytes already taken from the socket - messages are lost or the stream is cut mid-frame" % (f.name, body.term(hit[0])["sp"].split("/")[-1]))
                else:
                    r.ok(cfg, key, where(body, f.blk), "no .await between the fill and on_network_bytes")
        r.require(cfg, 2, "buffer fill sites in read futures")


def _engine_buffer(body, e):
    o = e.args[1]
    for _ in range(4):
        org = body.value_origin(o)
        if org[0] == "call" and org[1].name in ("freeze", "split", "split_to") and org[1].args:
            a0 = org[1].args[0]
            l = a0["p"]["l"] if a0["c"] in ("copy", "move") and not a0["p"]["pr"] else None
            for _k in range(8):
                if l is None:
                    break
                ds = body.whole_defs(l)
                if len(ds) == 1 and ds[0][0] == "assign" and ds[0][3]["r"]["k"] == "use" and ds[0][3]["r"]["o"]["c"] in ("copy", "move") and not ds[0][3]["r"]["o"]["p"]["pr"]:
                    l = ds[0][3]["r"]["o"]["p"]["l"]
                    continue
                break
            if l is not None and body.locals[l].startswith("bytes::BytesMut"):
                return l
            rr = _ref_root(body, a0)
            if rr is not None and body.locals[rr].startswith("bytes::BytesMut"):
                return rr
            o = a0
            continue
        break
    return None


def r5_no_await_before_handoff(chk):
    r = chk.rule("R5", "a read future does not suspend while it holds bytes it has not handed over", "T10 no .await between take and hand-off",
                 "in every coroutine that accumulates transport reads in a local buffer and feeds ZmtpEngine::on_network_bytes: once a read has put bytes into the buffer there is no "
                 "suspension point before the hand-off (the awaited read itself excepted); otherwise what is delivered depends on which select! arm completes first")
    rule_no_await_between_read_and_engine(chk, r)


def is_plumbing_call(c):
    return c.name in ("deref", "deref_mut", "as_ref", "as_mut", "borrow", "borrow_mut", "into_future", "new_unchecked")


def run(chk):
    chk.undecided = ["that decoding itself is independent of stream cuts (value-level; see C03)"]
    r1_no_consumer_discards(chk)
    r3_phase_handover_drains(chk)
    r4_bytes_read_reach_engine(chk)
    r5_no_await_before_handoff(chk)
    from rules.common import rule_gate_closes_after_stage
    r2 = chk.rule("R2", "a greeting stage closes its re-entry gate only when the stage is finished", "T3 region + T4",
                  "in the ZMTP engine's byte-driven handlers, inside a region guarded by a gate on self.<field>, no assignment of that field is followed (within the region) by a need-more-bytes early return; otherwise the outcome depends on where a read boundary falls")
    rule_gate_closes_after_stage(chk, r2, r"protocol::zmtp::engine::ZmtpEngine::process_\w+$", r"network_read_accumulator", 3)
