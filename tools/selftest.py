#!/usr/bin/env python3
"""Checker self-test: apply a seeded edit to a scratch copy of /repo, run the
property's check against it (static analysis of the variant source), and compare
with the expectation.

  tools/selftest.py [--prop C08] [--name <case>] [--keep]

Cases live in /verif/selftest/<PROP>.json:
  [{"name": "...", "kind": "violation"|"benign",
    "edits": [{"file": "core/src/..", "find": "...", "replace": "..."}],   # each `find` must match exactly once
    "expect_key": "C08|R2|...substring of the violation key..."}]
A `violation` case passes when the check exits 1 and prints a VIOLATION whose key contains expect_key;
a `benign` case passes when no NEW violation (relative to the unchanged tree) is reported.
"""
import json
import os
import shutil
import subprocess
import sys

VERIF = os.path.dirname(os.path.dirname(os.path.abspath(__file__)))
ST = os.environ.get("VERIF_ST_DIR", "/var/tmp/verif-st")


def sh(cmd, **kw):
    return subprocess.run(cmd, shell=True, capture_output=True, text=True, **kw)


def prepare():
    os.makedirs(ST, exist_ok=True)
    sh("rsync -a --delete --exclude target /repo/ %s/repo/" % ST)
    cache = os.path.join(ST, "cache")
    os.makedirs(cache, exist_ok=True)
    for cfg in ("default", "full-linux"):
        src = os.path.join(VERIF, ".cache", "target-" + cfg)
        dst = os.path.join(cache, "target-" + cfg)
        if os.path.isdir(src) and not os.path.isdir(dst):
            sh("cp -r %s %s" % (src, dst))


def run_check(prop):
    env = dict(os.environ)
    env["VERIF_REPO"] = os.path.join(ST, "repo")
    env["VERIF_CACHE"] = os.path.join(ST, "cache")
    env["VERIF_EVIDENCE_DIR"] = os.path.join(ST, "evidence")
    r = subprocess.run([os.path.join(VERIF, "verif"), "check", prop], capture_output=True, text=True, env=env, cwd=VERIF)
    keys = []
    lines = r.stdout.splitlines()
    for i, l in enumerate(lines):
        if l.startswith("VIOLATION") and i + 1 < len(lines):
            keys.append(lines[i + 1].split(": ", 1)[-1].strip())
    return r.returncode, keys, r.stdout + r.stderr


class Drift(Exception):
    """the seeded edit no longer applies to the source under test (the source moved on): the case is skipped"""


def apply_edits(edits):
    repo = os.path.join(ST, "repo")
    for e in edits:
        if "revert" in e:
            # undo one of the `fix:` commits (the defect it repaired is the seeded violation)
            r = sh("git -C %s show %s | git -C %s apply -R" % (repo, e["revert"], repo))
            if r.returncode != 0:
                raise Drift("cannot revert %s: %s" % (e["revert"], r.stderr[:200]))
            continue
        if "patch" in e:
            # a stored seeded change (/verif/seeded/<id>/patch.diff)
            r = sh("git -C %s apply %s" % (repo, os.path.join(VERIF, e["patch"])))
            if r.returncode != 0:
                raise Drift("patch %s does not apply: %s" % (e["patch"], r.stderr[:200]))
            continue
        p = os.path.join(repo, e["file"])
        s = open(p).read()
        n = s.count(e["find"])
        if n != 1:
            raise Drift("edit does not match exactly once (%d) in %s: %r" % (n, e["file"], e["find"][:80]))
        s = s.replace(e["find"], e["replace"])
        open(p, "w").write(s)


def main():
    args = sys.argv[1:]
    prop = args[args.index("--prop") + 1] if "--prop" in args else None
    name = args[args.index("--name") + 1] if "--name" in args else None
    keep = "--keep" in args
    cases = []
    d = os.path.join(VERIF, "selftest")
    for f in sorted(os.listdir(d)):
        if not f.endswith(".json"):
            continue
        pid = f[:-5]
        if prop and pid != prop:
            continue
        for c in json.load(open(os.path.join(d, f))):
            if name and c["name"] != name:
                continue
            cases.append((pid, c))
    if not cases:
        print("no cases")
        return 2
    prepare()
    baseline = {}
    failed = 0
    skipped = 0
    results = []
    for pid, c in cases:
        sh("git -C %s/repo checkout -- . && git -C %s/repo clean -fdq -e target" % (ST, ST))
        if pid not in baseline:
            rc, keys, _ = run_check(pid)
            baseline[pid] = set(keys)
        try:
            apply_edits(c["edits"])
        except Drift as e:
            print("SKIP %s/%s: %s" % (pid, c["name"], e))
            results.append({"case": c["name"], "kind": c["kind"], "skipped": str(e)})
            skipped += 1
            continue
        rc, keys, out = run_check(pid)
        new = [k for k in keys if k not in baseline[pid]]
        if rc == 2:
            ok = False
            msg = "check errored (does the variant still compile?)\n" + out[-1500:]
        elif c["kind"] == "violation":
            ok = any(c["expect_key"] in k for k in new)
            msg = "new violations: %s" % new
        else:
            ok = not new
            msg = "new violations: %s" % new
        print("%s %s/%s (%s) %s" % ("PASS" if ok else "FAIL", pid, c["name"], c["kind"], "" if ok else msg))
        results.append({"case": c["name"], "kind": c["kind"], "expected_key": c.get("expect_key", ""), "checker_verdict_as_expected": ok, "new_violations": new})
        if not ok:
            failed += 1
    if not keep:
        shutil.rmtree(ST, ignore_errors=True)
    print("selftest: %d cases, %d failed, %d skipped" % (len(cases), failed, skipped))
    if os.environ.get("VERIF_ST_SUMMARY"):
        with open(os.environ["VERIF_ST_SUMMARY"], "w") as fh:
            json.dump({"cases": len(cases), "failed": failed, "skipped": skipped, "results": results}, fh)
    return 1 if failed else 0


if __name__ == "__main__":
    sys.exit(main())
