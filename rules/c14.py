"""C14 — high-water marks bound buffering and SNDTIMEO/RCVTIMEO mean what they say.

Decides: which timer each ISocketConnection send form arms (none for SNDTIMEO=-1, none and an
immediate would-block for 0), that the `_owned` forms give the refused batch back, the recv-side
mapping of RCVTIMEO, and that every channel on the data path is bounded by a configured high-water mark.
Not: elapsed-time bounds; the numeric buffering bound."""
import re

from vlib import mir
from vlib.mir import strip_generics
from vlib.util import where, short, is_plumbing

CONN = "socket::connection_iface::ISocketConnection"


def conn_bodies(prog, names):
    for body in prog.bodies.values():
        if body.impl_trait == CONN and body.name in names and body.kind.startswith("coroutine") and "::tests" not in body.path:
            yield body
        elif body.impl_trait == CONN and body.name in names and body.kind == "assoc_fn" and body.name.startswith("try_"):
            yield body


def r1_minus_one_waits(chk):
    r = chk.rule("R1", "SNDTIMEO = -1 arms no timer", "T2 sibling agreement",
                 "in every ISocketConnection send form an absent SNDTIMEO (None) must lead to a plain await: `sndtimeo.unwrap_or(<duration>)` turns 'wait until there is room' into a hidden timeout")
    for cfg, prog in chk.configs():
        n = 0
        for body in conn_bodies(prog, ("send_message", "send_multipart", "send_multipart_owned", "send_outgoing")):
            sends = [c for c in body.calls if c.matches(r"(BoundedAsyncSender|AsyncSender|Sender)::send$|ReadyPipeSender::send$|PipeMessageSender::send$")]
            if not sends:
                continue
            n += 1
            key = "%s|no default timeout for SNDTIMEO=-1" % short(body.path)
            caps = [c for c in body.calls if c.matches(r"Option::unwrap_or$") and re.search(r"sndtimeo", body.provenance(c.args[0]))]
            if caps:
                d = body.provenance(caps[0].args[1])
                r.bad(cfg, key, where(body, caps[0].blk), "`self.sndtimeo.unwrap_or(%s)`: with SNDTIMEO=-1 the send gives up after a built-in timeout instead of waiting until there is room" % d[:60])
            else:
                r.ok(cfg, key, where(body, sends[0].blk))
        r.require(cfg, 4, "awaiting send forms of ISocketConnection impls")


def r1b_zero_is_immediate(chk):
    r = chk.rule("R1b", "SNDTIMEO = 0 never awaits", "T3 guarded-by",
                 "every awaited channel send in an ISocketConnection send form is on the `sndtimeo != Some(0)` side of a test of the option")
    for cfg, prog in chk.configs():
        for body in conn_bodies(prog, ("send_message", "send_multipart", "send_multipart_owned")):
            for c in body.calls:
                if not c.matches(r"(BoundedAsyncSender|AsyncSender)::send$|ReadyPipeSender::send$|PipeMessageSender::send$"):
                    continue
                key = "%s|await only if SNDTIMEO != 0" % short(body.path)
                ok = False
                for g in body.guards(c.blk):
                    if g.atom[0] == "call" and g.truth is False:
                        cc = g.atom[1]
                        if cc.name in ("eq", "is_zero") and "sndtimeo" in " ".join(body.provenance(a) for a in cc.args):
                            ok = True
                if ok:
                    r.ok(cfg, key, where(body, c.blk))
                else:
                    r.bad(cfg, key, where(body, c.blk), "a blocking channel send is reachable with SNDTIMEO == 0: send() must fail immediately with a would-block error")
        r.require(cfg, 3, "awaited sends guarded by the zero-timeout test")


def r1c_owned_returns_batch(chk):
    r = chk.rule("R1c", "the `_owned` send forms give the refused batch back", "T5 payload returned",
                 "every Err((batch, e)) built by send_multipart_owned / try_send_multipart_owned_sync carries the caller's batch, except when the connection is closed")
    for cfg, prog in chk.configs():
        n = 0
        for body in prog.bodies.values():
            if body.impl_trait != CONN or body.name not in ("send_multipart_owned", "try_send_multipart_owned_sync") or "::tests" in body.path:
                continue
            if body.kind not in ("assoc_fn",) and not body.kind.startswith("coroutine"):
                continue
            for b, i, st in body.aggregates():
                rv = st["r"]
                if rv.get("ak") != "tuple" or len(rv["ops"]) != 2:
                    continue
                t0 = rv["ops"][0]
                ty0 = t0["p"]["ty"] if t0["c"] in ("copy", "move") else ""
                if ty0 != "message::FrameBatch":
                    continue
                err = body.provenance(rv["ops"][1])
                # which error variant?
                org = body.value_origin(rv["ops"][1])
                variant = org[1]["r"].get("variant") if org[0] == "agg" else None
                prov = body.provenance(t0)
                n += 1
                key = "%s|Err((batch, %s))" % (short(body.path), variant or "?")
                fresh = prov.startswith("message::FrameBatch::new")
                if not fresh:
                    r.ok(cfg, key, where(body, b), "returns " + prov[:70])
                elif variant == "ConnectionClosed":
                    r.ok(cfg, key, where(body, b), "connection closed: nothing to give back")
                else:
                    r.bad(cfg, key, where(body, b), "on %s the caller gets an EMPTY FrameBatch back instead of the message it handed in: callers that re-queue the returned batch (DEALER) then enqueue an empty message and report success" % (variant or "this error"))
        r.require(cfg, 4, "Err((batch, e)) constructions in the owned send forms")


def r2_recv_mapping(chk):
    r = chk.rule("R2", "one RCVTIMEO mapping on every receive path", "T2 sibling agreement",
                 "zero -> try_pop -> ResourceLimitReached; Some(d) -> timeout(d, pop) -> Timeout; None -> pop with no timer")
    for cfg, prog in chk.configs():
        for body in prog.bodies.values():
            if not body.kind.startswith("coroutine") or "::tests" in body.path:
                continue
            if not (body.impl_self in ("socket::patterns::anonymous_ingress::AnonymousIngressEngine", "socket::patterns::addressed_ingress::AddressedIngressEngine") and body.name in ("recv", "recv_multipart", "recv_logical_message")):
                continue
            base = short(body.path)
            tp = [c for c in body.calls if c.matches(r"ReadyPipeQueue::try_pop$")]
            pops = [c for c in body.calls if c.matches(r"ReadyPipeQueue::pop$")]
            tos = [c for c in body.calls if c.matches(r"^tokio::time::timeout$")]
            ok0 = any(any(g.atom[0] == "call" and g.atom[1].name == "is_zero" and g.truth is True for g in body.guards(c.blk)) for c in tp)
            (r.ok if ok0 else r.bad)(cfg, base + "|zero -> try_pop", where(body, tp[0].blk if tp else 0), *([] if ok0 else ["RCVTIMEO=0 does not take the non-blocking try_pop path"]))
            untimed = [c for c in pops if not any(body.provenance(t.args[1]).find("ReadyPipeQueue::pop") >= 0 and t.blk in body.reachable([c.blk]) and body.dominates(c.blk, t.blk) for t in tos)]
            timed = [c for c in pops if c not in untimed]
            okn = bool(untimed)
            (r.ok if okn else r.bad)(cfg, base + "|None -> plain pop", where(body, untimed[0].blk if untimed else 0), *([] if okn else ["no untimed pop(): RCVTIMEO=-1 would not wait indefinitely"]))
            # elapsed -> Timeout
            oke = False
            for b, i, st in body.aggregates():
                pass
            for cb in prog.bodies.values():
                if cb.kind == "closure" and cb.path.startswith(body.path):
                    for b, i, st in cb.aggregates():
                        if st["r"].get("variant") == "Timeout" and st["r"].get("adt", "").endswith("ZmqError"):
                            oke = True
            oke = oke and bool(timed)
            (r.ok if oke else r.bad)(cfg, base + "|Some(d) -> timeout(d, pop) -> Timeout", where(body, tos[0].blk if tos else 0), *([] if oke else ["a positive RCVTIMEO is not mapped to timeout(d, pop()) -> ZmqError::Timeout"]))
        r.require(cfg, 9, "receive paths x 3 RCVTIMEO cases")


def r3_bounded_channels(chk):
    r = chk.rule("R3", "every channel on the data path is bounded by a configured high-water mark", "T9/T1 constructor census",
                 "data-path channels are created by bounded constructors whose capacity derives from SNDHWM / RCVHWM (or the capacity handed down from them); unbounded constructors are listed")
    listed_unbounded = {"worker::UringWorker::spawn_with_config": "io_uring worker's op queue (control-plane requests from the runtime to the worker thread), not a per-connection message queue"}
    for cfg, prog in chk.configs():
        for c in prog.all_calls():
            if "tests" in c.body.path or not re.search(r"(fibre|tokio::sync|std::sync::mpsc|futures)", c.callee):
                continue
            if not re.search(r"::(bounded|unbounded|channel|unbounded_channel)(_async|_sync)?$", c.callee):
                continue
            body = c.body
            key = "%s|%s" % (short(body.path), c.callee.split("::", 1)[-1])
            if "unbounded" in c.callee:
                if short(body.path) in listed_unbounded:
                    r.ok(cfg, key, where(body, c.blk), "listed: " + listed_unbounded[short(body.path)])
                else:
                    r.bad(cfg, key, where(body, c.blk), "unbounded channel constructed: buffering is no longer bounded by a high-water mark")
                continue
            cap = body.provenance_all(c.args[0]) if c.args else ""
            if re.search(r"sndhwm|rcvhwm", cap):
                if re.match(r"^std::cmp::Ord::max\([\w:<>(). ,@#]*\.(sndhwm|rcvhwm)\)?, const:1\)$", cap):
                    r.ok(cfg, key, where(body, c.blk), "capacity = max(hwm, 1)")
                else:
                    r.bad(cfg, key, where(body, c.blk), "the capacity of a data-path channel is derived from a high-water mark but is not exactly max(hwm, 1): `%s` - buffering is no longer bounded by the configured HWM" % cap[-100:])
            elif re.search(r"capacity|const:\d+|max_connections|ready_capacity", cap):
                r.ok(cfg, key, where(body, c.blk), "capacity handed down / constant: " + cap[-60:])
            else:
                r.bad(cfg, key, where(body, c.blk), "channel capacity `%s` does not derive from a high-water-mark option or a constant" % cap[:80])
        r.require(cfg, 8, "channel constructors")


# relay loops: (body regex, buffer debug name, fetch-call regex, kind of evidence, reason)
RELAY_BUFFERS = [
    (r"socket::core::inproc_reader::spawn::\{closure#0\}$", "out", r"Receiver.*::(recv|try_recv_batch_mut)$", "path",
     "complete messages waiting for room in the socket's pipe: must be empty before the next batch is taken from the peer's queue"),
    (r"socket::core::inproc_reader::spawn::\{closure#0\}$", "drain_buf", r"Receiver.*::recv$", "path",
     "scratch for one batch: drained before the next blocking recv"),
    (r"sessionx::actor::SessionConnectionActorX::run_loop::\{closure#0\}$", "ingress_buffer", r"ZmqMessageProcessor::read_and_process$", "guard",
     "decoded messages waiting for the socket's pipe: the network-read arm is enabled only while it is empty"),
]
# buffers of the same census that are bounded by other rules
RELAY_ELSEWHERE = {
    ("run_loop", "core_carryover"): "C01 R1: the pipe from the core is read only while the carry-over queue is empty",
    ("run_loop", "outgoing_batch"): "per-cycle scratch: cleared at the start of each egress arm and filled up to max_count (C01 R2 census)",
}


def _buffer_local(body, name, ty_rx=r"^std::(collections::VecDeque|vec::Vec)<"):
    names, _ = body.names
    for l, n in names.items():
        if n == name and re.match(ty_rx, body.locals[l]):
            return l
    return None


def r4_relay_buffers(chk):
    from rules.c04 import _ref_root, _path_to
    r = chk.rule("R4", "a relay takes more from its bounded source only when its own message buffer is empty", "T4 must-pass-through / T3 guarded-by",
                 "every message buffer (VecDeque/Vec of FrameBatch) that a relay loop fills from a bounded channel or from the network is provably empty when the loop fetches again: "
                 "all paths from a push to the next fetch pass through pop==None / clear() / drain(..) / is_empty()==true, or the fetch arm is guarded by is_empty(); "
                 "otherwise the relay's private queue grows without bound while both neighbouring queues stay within their high-water marks")
    for cfg, prog in chk.configs():
        # census: message buffers grown inside loops that also fetch
        found = set()
        for b in prog.bodies.values():
            if "::tests" in b.path or not b.kind.startswith("coroutine"):
                continue
            fetch = [c for c in b.calls if ((c.name in ("recv", "try_recv_batch_mut", "recv_many") and "Receiver" in c.callee) or c.name == "read_and_process") and b.loops_containing(c.blk)]
            if not fetch:
                continue
            for c in b.calls:
                if c.name in ("push_back", "push", "extend", "push_front", "append") and c.args and b.loops_containing(c.blk):
                    l = _ref_root(b, c.args[0])
                    if l is not None and re.match(r"^std::(collections::VecDeque|vec::Vec)<message::FrameBatch", b.locals[l]):
                        found.add((b.path, b.names[0].get(l, str(l))))
        for path, name in sorted(found):
            fn = strip_generics(path)
            if any(re.search(rx, fn) and nm == name for rx, nm, _, _, _ in RELAY_BUFFERS):
                continue
            ew = [v for (k1, k2), v in RELAY_ELSEWHERE.items() if k1 in fn and k2 == name]
            key = "%s|%s is a bounded relay buffer" % (short(path), name)
            if ew:
                r.ok(cfg, key, fn, ew[0])
                continue
            # a buffer nobody reviewed yet: accept it when one of the generic proofs goes through
            body = prog.bodies[path]
            B = _buffer_local(body, name)
            proof = None
            if B is not None:
                on_b = lambda c: c.args and _ref_root(body, c.args[0]) == B
                pushes = [c for c in body.calls if c.name in ("push_back", "push", "extend", "push_front", "append") and on_b(c)]
                bounded = 0
                for c in pushes:
                    for g in body.guards(c.blk):
                        if g.atom[0] == "cmp" and g.atom[1] in ("Lt", "Le", "Gt", "Ge"):
                            pv = body.provenance(g.atom[2]) + " " + body.provenance(g.atom[3])
                            if re.search(r"\blen\(%s\)" % re.escape(name), pv):
                                bounded += 1
                                break
                if pushes and bounded == len(pushes):
                    proof = "every push is guarded by a comparison of %s.len()" % name
            if proof:
                r.ok(cfg, key, fn, proof)
            else:
                r.bad(cfg, key, fn, "a relay loop fills the message buffer `%s`; it is not in the reviewed table and no push is bounded by a comparison of its length" % name)
        for rx, name, fetch_rx, kind, why in RELAY_BUFFERS:
            for body in prog.find_bodies(rx):
                key = "%s|%s empty before %s" % (short(body.path), name, fetch_rx.split("::")[-1].rstrip("$").strip("()"))
                B = _buffer_local(body, name)
                fetches = [c for c in body.calls if c.matches(fetch_rx)]
                if B is None or not fetches:
                    r.bad(cfg, key, where(body, 0), "buffer `%s` or its fetch site not found (anchor missing)" % name)
                    continue
                on_b = lambda c: c.args and _ref_root(body, c.args[0]) == B
                if kind == "guard":
                    okf = 0
                    for f in fetches:
                        gs = list(body.guards(f.blk))
                        # the fetch is the future of a select! arm: its precondition guards the poll
                        for sel in body.selects:
                            for k, o in sel.futures.items():
                                org = body.value_origin(o)
                                if org[0] == "call" and org[1].blk == f.blk:
                                    gs += body.select_arm_guards(sel, k)
                        if any(g.atom[0] == "call" and g.atom[1].name == "is_empty" and on_b(g.atom[1]) and g.truth is True for g in gs):
                            okf += 1
                        else:
                            r.bad(cfg, key, where(body, f.blk), "the fetch is not guarded by %s.is_empty(): %s" % (name, why))
                    if okf == len(fetches):
                        r.ok(cfg, key, where(body, fetches[0].blk), "%d fetch site(s) under %s.is_empty()" % (okf, name))
                    continue
                grows = [c for c in body.calls if c.name in ("push_back", "push", "extend", "push_front", "append") and on_b(c) and c.target is not None]
                avoid_blocks = set(c.blk for c in body.calls if c.name in ("clear", "drain") and on_b(c))
                avoid_edges = set()
                for s in range(body.n):
                    if body.term(s)["k"] != "switch":
                        continue
                    a, pol = body.switch_atom(s)
                    if a[0] == "call" and a[1].name == "is_empty" and on_b(a[1]):
                        avoid_edges.add((s, body.bool_edge_label(s, pol)))
                    if a[0] == "discr" and a[2].startswith("std::option::Option<"):
                        org = body.value_origin({"c": "copy", "p": {"l": a[3]["l"], "pr": [], "s": "", "ty": ""}})
                        if org[0] == "call" and org[1].name in ("pop_front", "pop_back", "pop") and on_b(org[1]):
                            avoid_edges.add((s, body.label_for(s, 0)))
                fetch_blocks = set(f.blk for f in fetches)
                bad = None
                for g in grows:
                    reach = body.reachable([g.target], avoid_blocks=avoid_blocks, avoid_edges=avoid_edges)
                    hit = sorted(reach & fetch_blocks)
                    if hit:
                        path = _path_to(body, [g.target], hit[0], avoid_blocks, avoid_edges)
                        bad = (g, [body.term(x)["sp"].split("/")[-1] for x in path if body.term(x)["k"] == "switch"])
                        break
                if not grows:
                    r.bad(cfg, key, where(body, 0), "no push into `%s` found (anchor missing)" % name)
                elif bad:
                    r.bad(cfg, key, where(body, bad[0].blk), "after %s.%s(..) the loop can fetch again while `%s` still holds messages (branches: %s): %s" % (name, bad[0].name, name, " -> ".join(bad[1][-4:]), why))
                else:
                    r.ok(cfg, key, where(body, grows[0].blk), "%d push site(s); every path to the next fetch empties the buffer" % len(grows))
        r.require(cfg, 4, "relay buffers")


def _construction_site(prog, body):
    pb = prog.bodies.get(body.rec.get("parent"))
    if pb is None:
        return None, None
    for blk, i, st in pb.aggregates():
        if st["r"].get("def") == body.path:
            return pb, blk
    return pb, None


def r5_timed_wait_in_loop_is_absolute(chk):
    r = chk.rule("R5", "a RCVTIMEO wait inside a retry loop is bounded by one absolute deadline", "T4 loop-invariance of the time bound",
                 "where a receive path waits in a loop (parking, re-checking, racing wake-ups) the RCVTIMEO bound is `sleep_until/timeout_at(deadline)` with the deadline fixed before the loop, "
                 "or a remaining time recomputed from such a deadline - never `sleep(d)/timeout(d, ..)` with the option's duration, which every iteration re-arms "
                 "(recv() would then give up only RCVTIMEO after the last unrelated wake-up)")
    for cfg, prog in chk.configs():
        n = 0
        observed = []
        for b in prog.bodies.values():
            if "::tests" in b.path or "_tests::" in b.path or not re.search(r"core/src/socket/", b.file):
                continue
            for c in b.calls:
                if c.callee not in ("tokio::time::sleep", "tokio::time::timeout", "tokio::time::sleep_until", "tokio::time::timeout_at"):
                    continue
                # the loop this wait sits in: its own body's, or the loop in which the enclosing async block / closure is built
                x, blk, hops = b, c.blk, []
                loop_body, loop_blk = (b, c.blk) if b.loops_containing(c.blk) else (None, None)
                cur = b
                while loop_body is None:
                    pb, pblk = _construction_site(prog, cur)
                    if pb is None or pblk is None:
                        break
                    hops.append(cur)
                    if pb.loops_containing(pblk):
                        loop_body, loop_blk = pb, pblk
                        break
                    cur = pb
                if loop_body is None:
                    continue
                # where does the time operand come from?  follow captures up to the loop's body
                prov = b.provenance(c.args[0])
                o_body, o = b, c.args[0]
                root = re.split(r"[@.\[(]", prov)[0]
                chain = [b] + hops[1:] if hops else [b]
                origin_in_loop = None
                lb = loop_body
                h, blocks = lb.loops_containing(loop_blk)[0]
                if lb is b:
                    org = b.value_origin(c.args[0])
                    if org[0] == "call":
                        origin_in_loop = org[1].blk in blocks
                    elif org[0] == "place":
                        origin_in_loop = any(d in blocks for d in b.def_blocks(org[1]["l"])) if b.def_blocks(org[1]["l"]) else False
                    else:
                        origin_in_loop = False
                    src_text = b.provenance_all(c.args[0]) + " " + " ".join(str(x[1]) for x in b.data_slice(c.args[0]))
                else:
                    # captured variable `root` of the nested body: find the local of that name in the loop's body
                    names, _ = lb.names
                    ls = [l for l, nm in names.items() if nm == root]
                    origin_in_loop = any(any(d in blocks for d in lb.def_blocks(l)) for l in ls) if ls else None
                    src_text = prov + " " + " ".join(str(x[1]) for l in ls for x in lb.data_slice({"c": "copy", "p": {"l": l, "pr": [], "s": "", "ty": ""}}))
                is_rcv = "rcvtimeo" in src_text.lower()
                is_snd = "sndtimeo" in src_text.lower()
                relative = c.name in ("sleep", "timeout")
                key = "%s|%s in a retry loop" % (short(b.path), c.name)
                if not is_rcv:
                    if is_snd and relative and origin_in_loop is False:
                        observed.append("%s (%s)" % (short(b.path), c.name))
                    continue
                n += 1
                if relative and origin_in_loop is False:
                    r.bad(cfg, key, where(b, c.blk), "`%s(d)` with the RCVTIMEO duration (fixed outside the loop at %s) sits inside a retry loop: every pass that is not a delivery (a peer finishing its handshake, a pipe detaching, a parked batch) re-arms the full interval, so a timed recv() returns Timeout only RCVTIMEO after the last such event instead of RCVTIMEO after the call" % (c.name, short(lb.path)))
                elif not relative and origin_in_loop is True:
                    r.bad(cfg, key, where(b, c.blk), "the deadline handed to `%s` is recomputed inside the loop: it moves with every pass" % c.name)
                else:
                    r.ok(cfg, key, where(b, c.blk), "%s with %s" % (c.name, "a deadline fixed before the loop" if not relative else "a remaining time recomputed per pass"))
        if observed:
            r.note("%s: SNDTIMEO-derived relative waits inside loops (not judged: whether a pass without progress can repeat is not decided): %s" % (cfg, ", ".join(sorted(set(observed)))))
        r.require(cfg, 1, "RCVTIMEO waits inside retry loops")


def run(chk):
    chk.undecided = ["elapsed-time bounds of send/recv", "the numeric buffering bound per connection"]
    r1_minus_one_waits(chk)
    r1b_zero_is_immediate(chk)
    r1c_owned_returns_batch(chk)
    r2_recv_mapping(chk)
    r3_bounded_channels(chk)
    r4_relay_buffers(chk)
    r5_timed_wait_in_loop_is_absolute(chk)
