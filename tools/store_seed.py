#!/usr/bin/env python3
"""Copy a confirmed seeded change into /verif/seeded/<dest>/ with what was run and what the checks reported.
usage: tools/store_seed.py <id> [<src-dir> [<proc-dir> [<dest-name> [<history note>]]]]   (reads <proc-dir>/<id>.{checks,confirm*}.log)"""
import json, os, re, shutil, sys
sid = sys.argv[1]
src = sys.argv[2] if len(sys.argv) > 2 else "/tmp/seedout/" + sid
proc = sys.argv[3] if len(sys.argv) > 3 else "/tmp/seedproc"
dest = sys.argv[4] if len(sys.argv) > 4 else sid
note = sys.argv[5] if len(sys.argv) > 5 else ""
dst = "/verif/seeded/" + dest
os.makedirs(dst, exist_ok=True)
for f in ("patch.diff", "demo.diff", "notes.md"):
    if os.path.exists(os.path.join(src, f)):
        shutil.copy(os.path.join(src, f), os.path.join(dst, f))
meta = json.load(open(os.path.join(src, "meta.json")))
checks = open("%s/%s.checks.log" % (proc, sid)).read()
m = re.search(r"FIRED: (\{.*\})", checks, re.S)
fired = json.loads(m.group(1)) if m else {}
import glob
res = []
for f in sorted(glob.glob("%s/%s.confirm*.log" % (proc, sid))):
    res += [l for l in open(f).read().splitlines() if l.startswith("RESULT")]
out = {
    "property": meta.get("property", sid[:3]),
    "author": "fresh sub-agent given only the property text and a scratch worktree",
    "summary": meta.get("summary"),
    "needs_to_manifest": meta.get("needs"),
    "files": meta.get("files"),
    "demo_cmd": meta.get("demo_cmd"),
    "agent_reported": {k: v for k, v in meta.items() if k.startswith("demo_") and k != "demo_cmd" or k.startswith("baseline")},
    "baseline_with_patch": "rerun by me (see confirmed_by_me.result)" if any("baseline=[passed" in x for x in res) else "as reported by the authoring agent (agent_reported.baseline_with_patch); my confirmation covers the demonstration and the workspace build",
    "confirmed_by_me": {
        "how": "tools/confirm_seed.sh: fresh worktree of /repo HEAD; demo.diff applied -> demo_cmd must pass; patch.diff applied -> demo_cmd must fail; cargo build --workspace --offline; pinned baseline (tools/baseline.sh) with the patch; tests missing from the baseline rerun alone 3x",
        "result": res if res else "MISSING",
    },
    "checks_run": "tools/run_seed.py: git -C /repo apply patch.diff; ./verif check C01..C20 (quick); git -C /repo checkout -- .",
    "checks_fired": fired,
}
if note:
    out["history"] = note
if os.path.exists(os.path.join(dst, "meta.json")):
    try:
        old = json.load(open(os.path.join(dst, "meta.json")))
        if old.get("history") and not note:
            out["history"] = old["history"]
    except Exception:
        pass
json.dump(out, open(os.path.join(dst, "meta.json"), "w"), indent=1)
print(sid, "stored; fired:", {k: [x.split("|")[1] for x in v] for k, v in fired.items()}, "|", (res[-1][:160] if res else "no RESULT"))
