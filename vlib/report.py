"""Check context: rule bookkeeping, known findings, evidence, exit status."""
import hashlib
import json
import os
import sys
import time

VERIF = os.path.dirname(os.path.dirname(os.path.abspath(__file__)))
KNOWN = os.path.join(VERIF, "known_findings.json")


class Rule:
    def __init__(self, check, rid, title, template, decides):
        self.check = check
        self.rid = rid
        self.title = title
        self.template = template
        self.decides = decides
        self.instances = []  # (config, key, where, ok, detail)
        self.violations = []
        self.floor = None
        self.notes = []

    def ok(self, config, key, where, detail=""):
        self.instances.append({"config": config, "key": key, "where": where, "ok": True, "detail": detail})

    def bad(self, config, key, where, what):
        """A violated instance.  `key` must not contain line numbers."""
        self.instances.append({"config": config, "key": key, "where": where, "ok": False, "detail": what})
        self.violations.append({"config": config, "key": "%s|%s|%s" % (self.check.pid, self.rid, key), "where": where, "what": what})

    def note(self, s):
        self.notes.append(s)

    def require(self, config, n, what):
        """fail closed when fewer than `n` instances were found in `config`"""
        got = len([i for i in self.instances if i["config"] == config])
        # the count confirmed on the pinned tree is `n`; a behaviour-preserving refactoring may merge a few sites (two identical
        # tails folded into one helper), so the rule fails closed only when fewer than 60 % of them are left (at least one)
        need = n if n <= 1 else max(1, (n * 3 + 4) // 5)
        self.floor = max(self.floor or 0, need)
        self.counted = max(getattr(self, "counted", 0), n)
        if got < need:
            self.bad(config, "floor|%s" % what, "-", "only %d instances found (%d were confirmed on the pinned tree, at least %d are required: %s): the rule would pass vacuously" % (got, n, need, what))


class Check:
    def __init__(self, pid, tier, programs, level_text=""):
        self.pid = pid
        self.tier = tier
        self.programs = programs  # config -> Program
        self.rules = []
        self.t0 = time.time()
        self.undecided = []
        self.assumptions = [
            "rustc type checking, name resolution and MIR construction are trusted",
            "the driver prints MIR faithfully (no analysis in Rust)",
            "only crate rzmq is analysed; external crates enter through the summary tables in the rules",
            "dyn calls expand to all impls in the crate; paths are not pruned for feasibility",
        ]

    def rule(self, rid, title, template="", decides=""):
        r = Rule(self, rid, title, template, decides)
        self.rules.append(r)
        return r

    def configs(self, needs=None):
        for c, p in self.programs.items():
            if needs and c not in needs:
                continue
            yield c, p

    # ------------------------------------------------------------------
    def finish(self):
        known = {"findings": [], "fixed": []}
        if os.path.exists(KNOWN):
            with open(KNOWN) as fh:
                known = json.load(fh)
        known_keys = {f["key"]: f for f in known.get("findings", []) if f.get("property") == self.pid}
        # dedupe violations across configs
        vio = {}
        for r in self.rules:
            for v in r.violations:
                e = vio.setdefault(v["key"], {"key": v["key"], "rule": r.rid, "where": v["where"], "what": v["what"], "configs": []})
                if v["config"] not in e["configs"]:
                    e["configs"].append(v["config"])
        unlisted = [v for k, v in vio.items() if k not in known_keys]
        listed = [v for k, v in vio.items() if k in known_keys]
        stale = [k for k in known_keys if k not in vio]
        for v in listed:
            print("KNOWN-FINDING: property=%s %s [%s] at %s" % (self.pid, known_keys[v["key"]]["what_fails"], v["key"], v["where"]))
        os.makedirs(os.path.join(VERIF, "reports"), exist_ok=True)
        for v in unlisted:
            h = hashlib.sha1(v["key"].encode()).hexdigest()[:10]
            path = os.path.join(VERIF, "reports", "%s-%s.json" % (self.pid, h))
            with open(path, "w") as fh:
                json.dump(v, fh, indent=1)
            print("VIOLATION property=%s replay=%s" % (self.pid, path))
            print("  rule %s: %s" % (v["rule"], v["key"]))
            print("  at %s (configs: %s)" % (v["where"], ",".join(v["configs"])))
            print("  %s" % v["what"])
        # evidence
        n_inst = sum(len(r.instances) for r in self.rules)
        n_ok = sum(1 for r in self.rules for i in r.instances if i["ok"])
        samples = []
        for r in self.rules:
            for i in r.instances[:3]:
                samples.append({"rule": r.rid, "config": i["config"], "instance": i["key"], "where": i["where"], "holds": i["ok"], "detail": i["detail"][:300]})
        rules_ev = []
        for r in self.rules:
            rules_ev.append({
                "rule": r.rid,
                "title": r.title,
                "template": r.template,
                "decides": r.decides,
                "instances": len(r.instances),
                "holding": sum(1 for i in r.instances if i["ok"]),
                "floor": r.floor,
                "instances_on_pinned_tree": getattr(r, "counted", None),
                "violations": [v["key"] for v in r.violations],
                "notes": r.notes,
                "instance_list": [{"config": i["config"], "key": i["key"], "where": i["where"], "ok": i["ok"]} for i in r.instances][:400],
            })
        ev = {
            "property_id": self.pid,
            "tier": self.tier,
            "seed": int(os.environ.get("VERIF_SEED", "0") or 0),
            "level": "other",
            "coverage": {
                "explanation": "static structural necessary-condition check over rustc MIR (pre-borrowck, pre-coroutine-transform) and item facts of crate rzmq; decides the rules listed under `rules`, not the runtime behaviour",
                "obligations": n_inst,
                "discharged": n_ok,
                "configs": {c: {"bodies": len(p.bodies), "input_hash": getattr(p.facts, "input_hash", None)} for c, p in self.programs.items()},
                "rules": rules_ev,
                "samples": samples,
                "known_findings_matched": [v["key"] for v in listed],
                "known_findings_not_observed": stale,
                "unlisted_violations": [v["key"] for v in unlisted],
                "not_decided": self.undecided,
                "checker_selftest": getattr(self, "selftest", None),
                "exhaustive": True,
            },
            "assumptions": self.assumptions,
            "wall_s": round(time.time() - self.t0, 2),
            "violations": len(unlisted),
        }
        evdir = os.environ.get("VERIF_EVIDENCE_DIR") or os.path.join(VERIF, "evidence")
        os.makedirs(evdir, exist_ok=True)
        with open(os.path.join(evdir, self.pid + ".json"), "w") as fh:
            json.dump(ev, fh, indent=1)
        print("%s %s: %d rules, %d instances, %d holding, %d known findings, %d unlisted violations, %.1fs" % (
            self.pid, self.tier, len(self.rules), n_inst, n_ok, len(listed), len(unlisted), time.time() - self.t0))
        return 1 if unlisted else 0
