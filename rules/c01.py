"""C01 — accepted messages arrive exactly once, in order, intact.

Decides the FIFO / no-overtaking discipline of the session's egress and ingress
plumbing (necessary conditions), not delivery itself.  DESIGN.md section 5/C01.
"""
import re

from vlib.util import where, short, norm_cmp, interval, guard_interval, calls_on, arg_type, is_mutating_call

Q_TYPES = r"VecDeque<(message::FrameBatch|\(bytes::Bytes, usize\)|std::vec::Vec<bytes::Bytes>)>"


def r1_no_overtaking(chk):
    r = chk.rule("R1", "pipe reads never overtake the carry-over queue", "T3 guarded-by (select-aware)",
                 "every read of the core->session pipe in the session loop happens only while the local carry-over queue is known to be empty")
    for cfg, prog in chk.configs():
        n = 0
        for body in prog.find_bodies(r"sessionx::actor::SessionConnectionActorX::run_loop::\{closure#0\}"):
            # the carry-over queue(s): VecDeque<FrameBatch> locals of the main loop body that receive
            # the overflow of an outgoing batch (extend / push_front)
            queues = set()
            main = prog.body("sessionx::actor::SessionConnectionActorX::run_loop::{closure#0}")
            for c in main.calls:
                if c.matches(r"VecDeque::(extend|push_front)$") and re.search(r"VecDeque<message::FrameBatch>", arg_type(c)):
                    queues.add(c.recv())
            if body is not main:
                # nested async block: is it a select arm future of the main loop that reads the pipe?
                reads = [c for c in body.calls if c.matches(r"CorePipeManagerX::(recv_from_core|try_recv_batch_from_core)$")]
                if not reads:
                    continue
                arm = None
                for sel in main.selects:
                    for k, o in sel.futures.items():
                        if o["c"] in ("copy", "move"):
                            for d in main.whole_defs(o["p"]["l"]):
                                if d[0] == "assign" and d[3]["r"]["k"] == "agg" and d[3]["r"].get("def") == body.path:
                                    arm = (sel, k)
                for c in reads:
                    n += 1
                    key = "%s|%s" % (short(body.path), c.name)
                    if arm is None:
                        r.bad(cfg, key, where(body, c.blk), "pipe read inside a nested future that is not an arm of the session loop's select!: its precondition cannot be established")
                        continue
                    gs = main.select_arm_guards(*arm)
                    okq = [q for q in queues if any(g.is_call(r"VecDeque::is_empty$", q) and g.truth is True for g in gs)]
                    if queues and len(okq) == len(queues):
                        r.ok(cfg, key, where(body, c.blk), "select arm %d precondition includes is_empty() of %s" % (arm[1], sorted(queues)))
                    else:
                        r.bad(cfg, key, where(body, c.blk), "select arm %d polls the pipe without `%s.is_empty()` in its precondition: newer messages overtake carried-over ones" % (arm[1], sorted(queues)))
                continue
            for c in body.calls:
                if not c.matches(r"CorePipeManagerX::(recv_from_core|try_recv_batch_from_core)$"):
                    continue
                n += 1
                key = "%s|%s#%d" % (short(body.path), c.name, [x for x in body.calls if x.name == c.name].index(c))
                gs = body.guards(c.blk)
                bad_q = []
                for q in sorted(queues):
                    good = False
                    for g in gs:
                        if g.is_call(r"VecDeque::is_empty$", q) and g.truth is True:
                            # no mutation of q between the check and the read
                            btw = body.between(g, c.blk)
                            mut = [m for m in body.calls if m.blk in btw and m.blk != c.blk and is_mutating_call(m, q) and m.name in ("push_front", "push_back", "extend", "insert", "append")]
                            if not mut:
                                good = True
                                break
                    if not good:
                        bad_q.append(q)
                if bad_q or not queues:
                    r.bad(cfg, key, where(body, c.blk),
                          "pipe read not dominated by `%s.is_empty() == true`: a message pushed back to the carry-over queue (batch byte limit) is overtaken by newer messages pulled from the pipe" % ",".join(bad_q))
                else:
                    r.ok(cfg, key, where(body, c.blk), "dominated by is_empty()==true of %s with no refill in between" % sorted(queues))
        r.require(cfg, 3, "pipe read sites in the session loop (2 try_recv_batch_from_core + 1 recv_from_core)")


def r3_drainer_drains(chk):
    r = chk.rule("R3", "a permit-woken queue drainer keeps draining", "T4 must-pass-through",
                 "a background task that pops ONE queued message per Notify permit must re-arm itself (notify_one) or observe the queue empty before it sleeps again")
    for cfg, prog in chk.configs():
        for body in prog.bodies.values():
            if not body.kind.startswith("coroutine"):
                continue
            pops = [c for c in body.calls if c.matches(r"VecDeque::pop_front$") and "FrameBatch" in arg_type(c)]
            routes = [c for c in body.calls if c.matches(r"OutgoingMessageOrchestrator::route_message$")]
            if not pops or not routes:
                continue
            # the wait: awaits of a select (poll_fn) in this body
            waits = [a for a in body.awaits() if (body.awaited_call(a) is not None and body.awaited_call(a).matches(r"std::future::poll_fn$"))]
            wait_blocks = [a.poll_blk for a in waits if a.poll_blk is not None]
            if not wait_blocks:
                continue
            for rc in routes:
                # await of route_message -> Ready(result) -> discr(result): Ok edge
                aw = [a for a in body.awaits() if body.awaited_call(a) is not None and body.awaited_call(a).blk == rc.blk]
                key = "%s|after route_message Ok" % short(body.path)
                if not aw or aw[0].ready_blk is None:
                    r.bad(cfg, key, where(body, rc.blk), "route_message is not awaited in the recognised shape")
                    continue
                # Ok-edge blocks: switches reachable from ready_blk on discr of a Result whose path mentions route_message, label 0
                starts = []
                for s in body.reachable([aw[0].ready_blk]):
                    t = body.term(s)
                    if t["k"] != "switch":
                        continue
                    a, _ = body.cond_atom(t["d"])
                    if a[0] == "discr" and "route_message" in a[1] and a[2].startswith("std::result::Result<"):
                        starts += [tb for tb, lab in body.edges(s) if lab == body.label_for(s, 0)]
                        break
                if not starts:
                    r.bad(cfg, key, where(body, rc.blk), "no match on the routing result found")
                    continue
                # M: notify_one on a Notify; queue observed empty (pop_front None edge / is_empty true edge)
                avoid_blocks = set(c.blk for c in body.calls if c.matches(r"tokio::sync::Notify::notify_one$"))
                avoid_edges = set()
                for s in range(body.n):
                    t = body.term(s)
                    if t["k"] != "switch":
                        continue
                    a, pol = body.cond_atom(t["d"])
                    if a[0] == "discr" and re.search(r"VecDeque::pop_front\(", a[1]) and a[2].startswith("std::option::Option<"):
                        avoid_edges.add((s, body.label_for(s, 0)))
                    if a[0] == "call" and a[1].matches(r"VecDeque::is_empty$") and "FrameBatch" in arg_type(a[1]):
                        avoid_edges.add((s, body.bool_edge_label(s, True if pol else False)))
                reach = body.reachable(starts, avoid_blocks=avoid_blocks, avoid_edges=avoid_edges)
                hit = [w for w in wait_blocks if w in reach]
                if hit:
                    r.bad(cfg, key, where(body, rc.blk),
                          "after a successful route the task returns to its select! wait (bb%s) without notify_one() and without having seen the queue empty: Notify holds one permit, so N queued messages need N external wake-ups" % hit[0])
                else:
                    r.ok(cfg, key, where(body, rc.blk), "every path back to the wait re-arms or sees the queue empty")
        r.require(cfg, 1, "queue drainer (DEALER outgoing processor)")


def r4_ingress_pop_after_completion(chk):
    r = chk.rule("R4", "ingress hand-off pops the original only after the send completed", "T3 guarded-by",
                 "IngressDriver sends a clone and pops the buffered original only on Poll::Ready(Ok)")
    for cfg, prog in chk.configs():
        for body in prog.find_bodies(r"<sessionx::ingress_future::IngressDriver<'a> as .*Future>::poll$"):
            for c in body.calls:
                if not (c.matches(r"VecDeque::pop_front$") and "FrameBatch" in arg_type(c)):
                    continue
                gs = body.guards(c.blk)
                ready = any(g.atom[0] == "discr" and g.atom[2].startswith("std::task::Poll<") and g.is_value(0) for g in gs)
                okk = any(g.atom[0] == "discr" and "@Ready" in g.atom[1] and g.atom[2].startswith("std::result::Result<") and g.is_value(0) for g in gs)
                key = "%s|pop_front#%d" % (short(body.path), [x for x in body.calls if x.name == "pop_front"].index(c))
                if ready and okk:
                    r.ok(cfg, key, where(body, c.blk), "dominated by Poll::Ready(Ok(..)) of the stored send future")
                else:
                    r.bad(cfg, key, where(body, c.blk), "buffered message popped without the send future having completed successfully: a Pending/failed send loses it")
        r.require(cfg, 2, "pop_front sites in IngressDriver::poll")


def r5_priority_at_boundary(chk):
    r = chk.rule("R5", "priority frames are inserted only at chunk boundaries", "T3 guarded-by + T9 constants",
                 "EgressBuffer::push_priority never puts a control frame in front of a partially written chunk")
    for cfg, prog in chk.configs():
        n = 0
        for body in prog.bodies.values():
            if body.impl_self != "sessionx::egress_buffer::EgressBuffer":
                continue
            for c in body.calls:
                if not (c.matches(r"VecDeque::(push_front|insert)$") and re.search(Q_TYPES, arg_type(c))):
                    continue
                n += 1
                gs = body.guards(c.blk)
                iv = guard_interval(body, gs, r"\.write_offset$")
                key = "%s|%s" % (short(body.path), c.name)
                if c.name == "push_front":
                    if iv is not None and iv[1] == 0:
                        r.ok(cfg, key, where(body, c.blk), "push_front only when write_offset == 0")
                    else:
                        r.bad(cfg, key, where(body, c.blk), "push_front on the egress chunk queue not guarded by write_offset == 0: a PING/PONG would be spliced into a half-written frame")
                else:
                    idx = body.const_int(c.args[1])
                    if idx == 1 and iv is not None and iv[0] >= 1:
                        r.ok(cfg, key, where(body, c.blk), "insert(1, ..) only when write_offset > 0")
                    elif idx == 0:
                        r.bad(cfg, key, where(body, c.blk), "insert(0, ..) puts a control frame in front of the chunk being written")
                    elif idx is not None and idx > 1:
                        r.bad(cfg, key, where(body, c.blk), "control frame inserted behind queued application data (index %s)" % idx)
                    else:
                        r.bad(cfg, key, where(body, c.blk), "insert into the egress chunk queue with an unrecognised index / guard")
        r.require(cfg, 2, "front insertions in EgressBuffer")


def r7_fifo_discipline(chk):
    r = chk.rule("R7", "data-path queues are used as FIFOs", "T9 operation census",
                 "every VecDeque on the data path is enqueued at the back and dequeued at the front; push_front only re-queues the value just popped / refused")
    allowed = {"new", "with_capacity", "len", "is_empty", "iter", "front", "push_back", "extend", "pop_front", "clear", "drain", "default", "capacity", "reserve", "front_mut", "iter_mut", "contains"}
    for cfg, prog in chk.configs():
        for c in prog.all_calls():
            if "VecDeque" not in c.callee:
                continue
            ty = arg_type(c)
            if not re.search(Q_TYPES + r"|VecDeque<T>", ty):
                continue
            if "VecDeque<T>" in ty and "ready_pipe_queue" not in c.body.path:
                continue
            body = c.body
            key = "%s|%s on %s" % (short(body.path), c.name, re.sub(r"^.*?VecDeque", "VecDeque", ty)[:60])
            if c.name in allowed:
                r.ok(cfg, key, where(body, c.blk))
                continue
            if c.name == "push_front":
                prov = body.provenance(c.args[1])
                if re.search(r"VecDeque::pop_front\(", prov) or "@Err" in prov:
                    r.ok(cfg, key, where(body, c.blk), "re-queues a value popped/refused on this path: " + prov[:120])
                    continue
                if body.impl_self == "sessionx::egress_buffer::EgressBuffer":
                    r.ok(cfg, key, where(body, c.blk), "EgressBuffer::push_priority (checked by R5)")
                    continue
                r.bad(cfg, key, where(body, c.blk), "push_front of a fresh value on a data-path FIFO (value: %s): it overtakes queued messages" % prov[:100])
                continue
            if c.name == "insert" and body.impl_self == "sessionx::egress_buffer::EgressBuffer":
                r.ok(cfg, key, where(body, c.blk), "EgressBuffer::push_priority (checked by R5)")
                continue
            r.bad(cfg, key, where(body, c.blk), "`%s` on a data-path FIFO breaks queue order" % c.name)
        r.require(cfg, 30, "VecDeque operations on data-path queues")
    # who may call push_priority: only with engine-generated control frames
    r2 = chk.rule("R7b", "push_priority carries engine control frames only", "T1 who-may-call + T11 derives-from",
                  "the only jump-the-queue path is fed from NetAction::Send produced by the ZMTP engine")
    for cfg, prog in chk.configs():
        for c in prog.calls_to(r"EgressBuffer::push_priority$"):
            prov = c.body.provenance(c.args[1])
            key = "%s|push_priority" % short(c.body.path)
            if "@Send" in prov and ("net_actions" in prov or "NetAction" in prov or "into_iter" in prov or "next(" in prov):
                r2.ok(cfg, key, where(c.body, c.blk), prov[:140])
            else:
                r2.bad(cfg, key, where(c.body, c.blk), "push_priority fed from something other than an engine NetAction::Send: " + prov[:140])
        r2.require(cfg, 2, "push_priority call sites")


def r2_overflow_moved(chk):
    r = chk.rule("R2", "a batch that does not fit is moved to the carry-over queue, never dropped", "T5 payload consumed (operation census)",
                 "on the session's outgoing batch (Vec<FrameBatch>) the only removing operations are `drain(..)` whose result flows into extend() of the carry-over VecDeque, and clear() at the head of a round; truncate / pop / remove / retain would drop accepted messages")
    for cfg, prog in chk.configs():
        body = prog.body("sessionx::actor::SessionConnectionActorX::run_loop::{closure#0}")
        if body is None:
            r.bad(cfg, "anchor|run_loop", "-", "not found")
            continue
        for c in body.calls:
            ty = arg_type(c)
            if "Vec<message::FrameBatch>" not in ty or "VecDeque" in ty:
                continue
            key = "%s|%s on the outgoing batch#%d" % (short(body.path), c.name, len([x for x in r.instances if x["config"] == cfg and ("|%s on the outgoing batch" % c.name) in x["key"]]))
            if c.name in ("truncate", "pop", "remove", "swap_remove", "retain", "split_off", "dedup", "drain_filter"):
                r.bad(cfg, key, where(body, c.blk), "`%s` removes accepted messages from the outgoing batch without moving them anywhere: they are lost" % c.name)
            elif c.name == "drain":
                sink = [e for e in body.calls if e.name == "extend" and "VecDeque" in e.callee and "FrameBatch" in arg_type(e) and "Vec::drain(" in body.provenance(e.args[1]) and e.blk in body.reachable([c.blk])]
                if sink:
                    r.ok(cfg, key, where(body, c.blk), "drained tail moved into %s" % sink[0].recv())
                else:
                    r.bad(cfg, key, where(body, c.blk), "the drained overflow of the outgoing batch is not moved into the carry-over queue: messages beyond the byte limit are dropped")
            elif c.name == "clear":
                # only at the head of a round: nothing was pushed since the previous framing
                pushes_before = [p_ for p_ in body.calls if p_.name == "push" and "Vec<message::FrameBatch>" in arg_type(p_) and body.dominates(p_.blk, c.blk)]
                if pushes_before:
                    r.bad(cfg, key, where(body, c.blk), "clear() of the outgoing batch after messages were pushed into it in the same round")
                else:
                    r.ok(cfg, key, where(body, c.blk), "clear() at the head of a round")
        r.require(cfg, 4, "removing operations on the outgoing batch (2 drain + 2 clear)")


def r8_dealer_direct_send(chk):
    r = chk.rule("R8", "a send does not bypass messages already queued by earlier sends", "T3 guarded-by (sibling contradiction)",
                 "DEALER: routing a new message straight to a peer while older messages wait in the pending queue reorders them")
    for cfg, prog in chk.configs():
        n = 0
        for body in prog.bodies.values():
            if body.impl_self != "socket::dealer_socket::DealerSocket" or not body.kind.startswith("coroutine"):
                continue
            routes = [c for c in body.calls if c.matches(r"OutgoingMessageOrchestrator::route_message$")]
            for c in routes:
                n += 1
                gs = body.guards(c.blk)
                ok = any(g.atom[0] == "call" and g.atom[1].matches(r"VecDeque::is_empty$") and "pending_outgoing_queue" in (g.atom[1].recv() or "") and g.truth is True for g in gs)
                key = "%s|direct route_message" % short(body.path)
                if ok:
                    r.ok(cfg, key, where(body, c.blk), "direct routing only while the pending queue is empty")
                else:
                    r.bad(cfg, key, where(body, c.blk),
                          "DEALER send routes directly to a peer without checking that pending_outgoing_queue is empty: a message queued while no peer was connected is overtaken by a later send")
        r.require(cfg, 1, "direct route_message sites in DealerSocket")


def run(chk):
    chk.undecided = [
        "exactly-once / in-order / byte-identical delivery over all workloads, HWMs, batch options, transports and runtimes (runtime schedules and values)",
    ]
    r1_no_overtaking(chk)
    r2_overflow_moved(chk)
    r3_drainer_drains(chk)
    r4_ingress_pop_after_completion(chk)
    r5_priority_at_boundary(chk)
    r7_fifo_discipline(chk)
    r8_dealer_direct_send(chk)
    from rules.c04 import rule_no_await_between_read_and_engine
    r9 = chk.rule("R9", "bytes taken from the transport cannot be dropped with a cancelled read future", "T10 no .await between take and hand-off",
                  "the session's read future (one arm of the session loop's select!) has no suspension point between a transport read into its local buffer and ZmtpEngine::on_network_bytes: messages already received are not lost when another arm wins the poll")
    rule_no_await_between_read_and_engine(chk, r9)
