"""C05 — handshakes converge, agree, and give one verdict on compatibility.

Decides: the staged greeting's stage table (no stage waits for more bytes than the peer can
have sent), READY roles, that every PeerError is fatal on both back-ends, and that the three
socket-type compatibility relations agree.  Not: convergence under every delivery schedule."""
import re

from rules import c07 as C7
from rules.c04 import variant_index
from vlib import mir
from vlib.mir import strip_generics
from vlib.util import where, short, is_plumbing

ACC = "self.network_read_accumulator"


def need_bytes(body, blk):
    """largest constant n such that len(accumulator) >= n is established on every path to blk"""
    best = 0
    for x, delta, g in C7.length_facts(body, blk, ACC):
        c = C7.const_of(C7.simplify(x))
        if c is not None:
            best = max(best, c + delta)
    return best


def r2_staged_greeting(chk):
    r = chk.rule("R2", "the staged greeting cannot wait on itself", "T3 guarded-by + T9 stage table",
                 "each greeting stage is emitted after at most as many peer bytes as the peer's previous stage has put on the wire: A(signature,10) needs 0; B(revision,1) needs 10; C(v3 tail,53) needs 11; decode needs 64")
    for cfg, prog in chk.configs():
        consts = {k.rsplit("::", 1)[-1]: v.get("int") for k, v in prog.facts.consts.items() if "protocol::zmtp" in k}
        sig, glen = consts.get("SIGNATURE_LENGTH"), consts.get("GREETING_LENGTH")
        if sig != 10 or glen != 64:
            r.bad(cfg, "const|SIGNATURE_LENGTH/GREETING_LENGTH", "core/src/protocol/zmtp/greeting.rs", "SIGNATURE_LENGTH=%s GREETING_LENGTH=%s (ZMTP: 10 / 64)" % (sig, glen))
            continue
        start = prog.body("protocol::zmtp::engine::ZmtpEngine::start")
        pg = prog.body("protocol::zmtp::engine::ZmtpEngine::process_greeting")
        if start is None or pg is None:
            r.bad(cfg, "anchor|start/process_greeting", "-", "engine entry points not found")
            continue
        # stage A
        sends = [(b, st) for b, i, st in start.aggregates() if st["r"].get("variant") == "Send" and st["r"].get("adt", "").endswith("NetAction")]
        if len(sends) == 1 and any(c.matches(r"greeting::encode_signature$") for c in start.calls):
            r.ok(cfg, "stage A|signature sent unconditionally by start()", where(start, sends[0][0]))
        else:
            r.bad(cfg, "stage A|signature sent unconditionally by start()", where(start, 0), "start() must emit exactly the 10-byte signature")
        # stages B, C in process_greeting
        stage = {}
        for b, i, st in pg.aggregates():
            if st["r"].get("variant") != "Send" or not st["r"].get("adt", "").endswith("NetAction"):
                continue
            data = pg.provenance(st["r"]["ops"][0])
            if "from_static" in data:
                stage["B"] = (b, need_bytes(pg, b))
            elif "freeze" in data:
                stage["C"] = (b, need_bytes(pg, b))
        emitted = {"A": sig, "B": 1, "C": glen - sig - 1}
        for nm, prev_total in (("B", emitted["A"]), ("C", emitted["A"] + emitted["B"])):
            key = "stage %s|needs <= %d peer bytes" % (nm, prev_total)
            if nm not in stage:
                r.bad(cfg, key, where(pg, 0), "stage %s emission not found in process_greeting" % nm)
                continue
            b, need = stage[nm]
            if need <= prev_total:
                r.ok(cfg, key, where(pg, b), "waits for %d bytes" % need)
            else:
                r.bad(cfg, key, where(pg, b), "stage %s is emitted only after %d peer bytes, but the peer (running the same staged greeting) has sent only %d before it sees ours: two rzmq peers wait for each other forever" % (nm, need, prev_total))
        # decode after full greeting
        dec = [c for c in pg.calls if c.matches(r"ZmtpGreeting::decode$")]
        for c in dec:
            need = need_bytes(pg, c.blk)
            key = "decode|needs <= %d peer bytes" % glen
            if need <= glen:
                r.ok(cfg, key, where(pg, c.blk), "waits for %d bytes" % need)
            else:
                r.bad(cfg, key, where(pg, c.blk), "greeting decode waits for %d bytes, a greeting has %d" % (need, glen))
        r.require(cfg, 4, "greeting stages")


def r3_ready_roles(chk):
    r = chk.rule("R3", "READY roles", "T3 guarded-by",
                 "the client emits READY on entering the Ready phase, the server only after the client's READY")
    for cfg, prog in chk.configs():
        for c in prog.calls_to(r"ZmtpEngine::emit_local_ready$"):
            body = c.body
            if "::tests" in body.path:
                continue
            gs = body.guards(c.blk, select_aware=False)
            srv = [g.truth for g in gs if g.atom[0] == "place" and g.atom[1].endswith(".is_server")]
            key = "%s|emit_local_ready role" % short(body.path)
            if body.name == "process_ready":
                ok = srv == [True]
                want = "server (after parsing the client's READY)"
            else:
                ok = srv == [False]
                want = "client (on entering Ready)"
            if ok:
                r.ok(cfg, key, where(body, c.blk), want)
            else:
                r.bad(cfg, key, where(body, c.blk), "READY emitted under is_server==%s, expected %s: both sides would wait for (or both send) the first READY" % (srv, want))
        r.require(cfg, 3, "emit_local_ready call sites")


def r4_peer_error_fatal(chk):
    r = chk.rule("R4", "every PeerError closes the connection on both back-ends", "T2 sibling agreement",
                 "each by-value consumer of AppAction handles PeerError by making the connection fatal (set_fatal_error / initiate_close_due_to_error)")
    floors = {"default": 3, "noplain": 3, "full": 3, "full-linux": 4}
    for cfg, prog in chk.configs():
        adt, vidx = variant_index(prog, "protocol::zmtp::actions::AppAction", "PeerError")
        for body in prog.bodies.values():
            if "::tests" in body.path:
                continue
            live = body.live_blocks()
            for s in range(body.n):
                t = body.term(s)
                if t["k"] != "switch" or s not in live:
                    continue
                a, _ = body.cond_atom(t["d"])
                if a[0] != "discr" or a[2] != adt or a[3]["pr"]:
                    continue
                tgt = [tb for v, tb in t["targets"] if v == vidx]
                key = "%s|match AppAction arm PeerError" % short(body.path)
                if not tgt:
                    r.bad(cfg, key, where(body, s), "PeerError falls into a wildcard arm: a protocol error reported by the engine is ignored and the connection lives on")
                    continue
                fatal = set(c.blk for c in body.calls if c.matches(r"set_fatal_error$|transition_to_shutdown_stream$"))
                for b, i, st in body.statements():
                    if st["k"] == "assign" and st["p"]["pr"] and st["p"]["pr"][-1][0] == "field" and st["p"]["pr"][-1][2] in ("initiate_close_due_to_error",) and st["r"]["k"] == "use" and st["r"]["o"].get("int") == 1:
                        fatal.add(b)
                join = body.ipdom.get(s)
                reach = body.reachable(tgt, avoid_blocks=fatal)
                if (join in reach) or any(body.term(b)["k"] == "return" for b in reach):
                    r.bad(cfg, key, where(body, s), "the PeerError arm can finish without making the connection fatal")
                else:
                    r.ok(cfg, key, where(body, s))
        r.require(cfg, floors.get(cfg, 3), "by-value matches over AppAction")


def run(chk):
    chk.undecided = ["convergence for all delivery schedules (model-checking question)", "agreement of the negotiated values at both ends"]
    r2_staged_greeting(chk)
    r3_ready_roles(chk)
    r4_peer_error_fatal(chk)


# ---------------------------------------------------------------------------
# R1: one compatibility relation
# ---------------------------------------------------------------------------
def _accepting_paths(body, constraint_of_switch, max_paths=20000):
    """enumerate CFG paths from entry to blocks that assign `_0 = true`; returns list of dict idx->value of the
    constraints picked up on true/variant edges"""
    accept = set()
    for b, i, st in body.statements():
        if st["k"] == "assign" and st["p"]["l"] == 0 and not st["p"]["pr"] and st["r"]["k"] == "use" and st["r"]["o"].get("int") == 1:
            accept.add(b)
    out = []
    stack = [(0, {}, frozenset())]
    n = 0
    while stack and n < max_paths:
        b, cons, seen = stack.pop()
        if b in seen:
            continue
        n += 1
        if b in accept:
            out.append(cons)
            continue
        t = body.term(b)
        if t["k"] == "switch":
            cs = constraint_of_switch(b)
            for tb, lab in body.edges(b):
                c2 = dict(cons)
                if cs is not None:
                    k, val = cs(lab)
                    if k is not None:
                        c2[k] = val
                stack.append((tb, c2, seen | {b}))
        else:
            for tb, lab in body.edges(b):
                stack.append((tb, cons, seen | {b}))
    return out


def string_pairs(body):
    """pairs accepted by a closure of the shape matches!((x, y), ("A","B") | ...)"""
    def cs(b):
        t = body.term(b)
        a, pol = body.cond_atom(t["d"])
        if a[0] == "call" and a[1].callee.endswith("str::traits::eq") and len(a[1].args) == 2 and a[1].args[1]["c"] == "const":
            lit = a[1].args[1].get("v", "").replace("const ", "").strip('"')
            # which tuple field?
            org = a[1].args[0]
            idx = None
            if org["c"] in ("copy", "move"):
                for d in body.whole_defs(org["p"]["l"]):
                    if d[0] == "assign" and d[3]["r"]["k"] == "ref":
                        for e in d[3]["r"]["p"]["pr"]:
                            if e[0] == "field":
                                idx = e[1]
            true_lab = body.bool_edge_label(b, True if pol else False)
            return lambda lab: ((idx, lit) if lab == true_lab else (None, None))
        return None
    pairs = set()
    for cons in _accepting_paths(body, cs):
        if 0 in cons and 1 in cons:
            pairs.add((cons[0], cons[1]))
    return pairs


def enum_pairs(prog, body, enum_path):
    adt = prog.facts.adts.get(enum_path)
    names = [v["name"] for v in adt["variants"]]

    def cs(b):
        t = body.term(b)
        a, pol = body.cond_atom(t["d"])
        if a[0] == "discr" and a[2] == enum_path:
            idx = None
            for e in a[3]["pr"]:
                if e[0] == "field":
                    idx = e[1]
            return lambda lab: ((idx, names[lab].upper()) if isinstance(lab, int) and lab < len(names) else (None, None))
        return None
    pairs = set()
    for cons in _accepting_paths_local(body, cs):
        if 0 in cons and 1 in cons:
            pairs.add((cons[0], cons[1]))
    return pairs


def _accepting_paths_local(body, constraint_of_switch):
    """like _accepting_paths, but accepting blocks assign `true` to any bool local (match result), not only _0"""
    accept = set()
    for b, i, st in body.statements():
        if st["k"] == "assign" and not st["p"]["pr"] and st["r"]["k"] == "use" and st["r"]["o"].get("int") == 1 and st["r"]["o"].get("ty") == "bool":
            accept.add(b)
    out = []
    stack = [(0, {}, frozenset())]
    n = 0
    while stack and n < 20000:
        b, cons, seen = stack.pop()
        if b in seen:
            continue
        n += 1
        if b in accept:
            out.append(cons)
            continue
        t = body.term(b)
        cs = constraint_of_switch(b) if t["k"] == "switch" else None
        for tb, lab in body.edges(b):
            c2 = cons
            if cs is not None:
                k, val = cs(lab)
                if k is not None:
                    c2 = dict(cons)
                    c2[k] = val
            stack.append((tb, c2, seen | {b}))
    return out


def r1_one_relation(chk):
    r = chk.rule("R1", "one socket-type compatibility relation", "T9 table agreement",
                 "the pairs accepted over ZMTP/3.x (READY Socket-Type), ZMTP/2.0 (greeting byte) and inproc are the same symmetric relation")
    for cfg, prog in chk.configs():
        shared = prog.body("protocol::zmtp::greeting::socket_types_compatible")
        clos = prog.body("protocol::zmtp::greeting::socket_types_compatible::{closure#0}")
        if shared is None or clos is None:
            r.bad(cfg, "anchor|shared table", "-", "no shared compatibility function (greeting::socket_types_compatible) found: the three paths cannot be using one table")
            continue
        base = string_pairs(clos)
        ncalls = len([c for c in shared.calls if c.callee.endswith("socket_types_compatible::{closure#0}")])
        table = set(base) | ({(b, a) for a, b in base} if ncalls >= 2 else set())
        if len(base) < 8:
            r.bad(cfg, "shared table|extracted", where(clos, 0), "only %d pairs extracted from the shared table" % len(base))
            continue
        # the reference: the valid pairings of the ZeroMQ socket patterns (ZMTP 3.1 / RFC 28 "Socket semantics")
        spec = {("PAIR", "PAIR"), ("PUB", "SUB"), ("PUB", "XSUB"), ("XPUB", "SUB"), ("XPUB", "XSUB"), ("REQ", "REP"), ("REQ", "ROUTER"),
                ("DEALER", "REP"), ("DEALER", "DEALER"), ("DEALER", "ROUTER"), ("ROUTER", "ROUTER"), ("PUSH", "PULL")}
        spec_sym = spec | {(b, a) for a, b in spec}
        lost = sorted(p for p in spec_sym if p not in table and p[0] <= p[1])
        added = sorted(p for p in table if p not in spec_sym and p[0] <= p[1])
        if lost or added:
            r.bad(cfg, "shared table|equals the ZeroMQ pairing relation", where(clos, 0), "the shared compatibility table %s%s: compatible endpoints would be refused / incompatible ones accepted" % (
                ("refuses the valid pairing(s) %s" % lost) if lost else "", ((" and " if lost else "") + "accepts %s which are not ZeroMQ pairings" % added) if added else ""))
        else:
            r.ok(cfg, "shared table|equals the ZeroMQ pairing relation", where(clos, 0), "12 pairings, symmetric closure")
        sym = all((b, a) in table for a, b in table)
        (r.ok if sym else r.bad)(cfg, "shared table|symmetric", where(shared, 0), *([] if sym else ["the shared relation is not symmetric"]))
        r.note("%s: shared table = %s" % (cfg, sorted(base)))
        # v2 path delegates
        v2 = prog.body("protocol::zmtp::engine::ZmtpEngine::validate_v2_compatibility")
        ok = v2 is not None and any(c.callee == "protocol::zmtp::greeting::socket_types_compatible" for c in v2.calls)
        (r.ok if ok else r.bad)(cfg, "ZMTP/2.0|uses the shared table", where(v2, 0) if v2 else "-", *([] if ok else ["validate_v2_compatibility does not consult the shared table"]))
        # v3 path: every path to phase=Data in process_ready passes the check (or the peer sent no Socket-Type)
        pr = prog.body("protocol::zmtp::engine::ZmtpEngine::process_ready")
        key = "ZMTP/3.x|READY Socket-Type validated before Data"
        if pr is None:
            r.bad(cfg, key, "-", "process_ready not found")
        else:
            from rules.c06 import phase_assignments
            datas = [b for b, i, v in phase_assignments(pr) if v == "Data"]
            chk_calls = [c for c in pr.calls if c.callee == "protocol::zmtp::greeting::socket_types_compatible"]
            avoid_edges = set()
            for c in chk_calls:
                # only the `true` edge of the check may continue
                for s in range(pr.n):
                    t = pr.term(s)
                    if t["k"] == "switch":
                        a, pol = pr.cond_atom(t["d"])
                        if a[0] == "call" and a[1].blk == c.blk:
                            avoid_edges.add((s, pr.bool_edge_label(s, True if pol else False)))
            # None edge of the Option<&str> holding the peer type
            none_edges = set()
            for s in range(pr.n):
                t = pr.term(s)
                if t["k"] == "switch":
                    a, _ = pr.cond_atom(t["d"])
                    if a[0] == "discr" and a[2] == "std::option::Option<&str>":
                        none_edges.add((s, pr.label_for(s, 0)))
            reach = pr.reachable([0], avoid_edges=avoid_edges | none_edges)
            if chk_calls and datas and not any(d in reach for d in datas):
                r.ok(cfg, key, where(pr, chk_calls[0].blk), "phase=Data only after socket_types_compatible(..) == true (or no Socket-Type property)")
            else:
                r.bad(cfg, key, where(pr, datas[0] if datas else 0), "the READY handler reaches phase=Data without validating the peer's Socket-Type against the shared table: e.g. a PUB connecting to a PULL completes the handshake")
        # inproc
        ip = prog.body("transport::inproc::handshake::validate_socket_compatibility")
        if ip is None:
            r.note("%s: inproc transport not compiled" % cfg)
        else:
            ipairs = enum_pairs(prog, ip, "socket::types::SocketType")
            extra = sorted(p for p in ipairs if p not in table)
            local_types = set(x for p in ipairs for x in p) | {"DEALER", "ROUTER", "REQ", "REP", "PUSH", "PULL", "PUB", "SUB"}
            missing = sorted(p for p in table if p not in ipairs and p[0] in local_types and p[1] in local_types)
            if extra:
                r.bad(cfg, "inproc|accepts only pairs of the shared table", where(ip, 0), "inproc accepts %s which ZMTP refuses" % extra)
            else:
                r.ok(cfg, "inproc|accepts only pairs of the shared table", where(ip, 0), "%d pairs" % len(ipairs))
            if missing:
                r.bad(cfg, "inproc|accepts every pair of the shared table", where(ip, 0), "inproc refuses %s, which are valid pairings over ZMTP/3.x and ZMTP/2.0: the verdict for a pair of socket types differs by transport" % missing)
            else:
                r.ok(cfg, "inproc|accepts every pair of the shared table", where(ip, 0))
        r.require(cfg, 4, "compatibility obligations")


def run(chk):  # noqa: F811
    chk.undecided = ["convergence for all delivery schedules (model-checking question)", "agreement of the negotiated values at both ends"]
    r1_one_relation(chk)
    r2_staged_greeting(chk)
    r3_ready_roles(chk)
    r4_peer_error_fatal(chk)
    from rules.common import rule_gate_closes_after_stage
    r5 = chk.rule("R5", "a handshake stage closes its re-entry gate only when the stage is finished", "T3 region + T4",
                  "in the engine's byte-driven handlers no assignment of a stage's gate field is followed, inside the gated stage, by a need-more-bytes early return (a fragmented greeting would stall the handshake for ever)")
    rule_gate_closes_after_stage(chk, r5, r"protocol::zmtp::engine::ZmtpEngine::process_\w+$", r"network_read_accumulator", 3)
    # wrong credentials or keys end in failure on both sides: the mechanisms' accept conditions (= C06 R5)
    from rules import c06
    c06.r5_mechanism_typestate(chk, rid="R6")
